//! lzsim — deterministic simulation with fault injection for gendx/lzma-rs.
//!
//! Exit codes: 0 property held on everything explored; 1 violation (with a
//! `VIOLATION property=<id> replay=<path>` line); 2 harness error.
#![allow(dead_code)]

mod drive;
mod env;
mod gen;
mod heap;
mod json;
mod prng;
mod props;
mod rcsearch;
mod refmodel;
mod runner;
mod scenario;
mod selftest;
mod stats;

use json::Json;
use runner::{CheckOpts, Tier};

#[global_allocator]
static ALLOC: heap::Meter = heap::Meter;

fn arg_val(args: &[String], name: &str) -> Option<String> {
    args.iter()
        .position(|a| a == name)
        .and_then(|i| args.get(i + 1).cloned())
}

fn main() {
    let args: Vec<String> = std::env::args().collect();
    env::install_quiet_panic_hook();
    let code = match args.get(1).map(|s| s.as_str()) {
        Some("check") => cmd_check(&args),
        Some("replay") => {
            let quiet = args.iter().any(|a| a == "--quiet");
            match args.get(2) {
                Some(p) => runner::replay_file(&props::all(), p, quiet),
                None => {
                    eprintln!("usage: lzsim replay <file>");
                    2
                }
            }
        }
        Some("selftest") => {
            let n = args.get(2).and_then(|x| x.parse().ok()).unwrap_or(2000);
            match selftest::run(n, 1) {
                Ok(m) => {
                    println!("{}", m);
                    0
                }
                Err(e) => {
                    eprintln!("HARNESS-ERROR: selftest: {}", e);
                    2
                }
            }
        }
        Some("determinism") => cmd_determinism(&args),
        Some("rcwitness") => {
            let seed = arg_val(&args, "--seed").and_then(|s| s.parse().ok()).unwrap_or(1);
            let secs = arg_val(&args, "--seconds").and_then(|s| s.parse().ok()).unwrap_or(600);
            let th = arg_val(&args, "--jobs").and_then(|s| s.parse().ok()).unwrap_or(16);
            rcsearch::run(seed, secs, th)
        }
        Some("dbwitness") => {
            let seed = arg_val(&args, "--seed").and_then(|s| s.parse().ok()).unwrap_or(1);
            let secs = arg_val(&args, "--seconds").and_then(|s| s.parse().ok()).unwrap_or(600);
            let th = arg_val(&args, "--jobs").and_then(|s| s.parse().ok()).unwrap_or(16);
            rcsearch::run_db(seed, secs, th)
        }
        Some("longsym") => {
            selftest::long_symbol_report();
            0
        }
        Some("list") => {
            for p in props::all() {
                println!("{} {}", p.id(), p.level());
            }
            0
        }
        _ => {
            eprintln!("usage: lzsim check --property Cxx [--tier quick|thorough] [--seed N] [--jobs N] | replay <file> | selftest [n] | list");
            2
        }
    };
    std::process::exit(code);
}

fn cmd_check(args: &[String]) -> i32 {
    let pid = match arg_val(args, "--property") {
        Some(p) => p,
        None => {
            eprintln!("HARNESS-ERROR: --property missing");
            return 2;
        }
    };
    let all = props::all();
    let prop = match all.iter().find(|p| p.id() == pid) {
        Some(p) => *p,
        None => {
            eprintln!("HARNESS-ERROR: unknown property {}", pid);
            return 2;
        }
    };
    let tier_s = arg_val(args, "--tier")
        .or_else(|| std::env::var("VERIF_TIER").ok())
        .unwrap_or_else(|| "quick".into());
    let tier = if tier_s == "thorough" {
        Tier::Thorough
    } else {
        Tier::Quick
    };
    let seed: u64 = arg_val(args, "--seed")
        .or_else(|| std::env::var("VERIF_SEED").ok())
        .and_then(|s| s.trim().parse().ok())
        .unwrap_or(1);
    let jobs: usize = arg_val(args, "--jobs")
        .or_else(|| std::env::var("VERIF_JOBS").ok())
        .and_then(|s| s.parse().ok())
        .unwrap_or_else(|| std::thread::available_parallelism().map(|n| n.get()).unwrap_or(4));
    let verif_dir = arg_val(args, "--verif-dir").unwrap_or_else(|| "/verif".into());
    let budget_s: f64 = arg_val(args, "--budget-s")
        .or_else(|| std::env::var("VERIF_BUDGET_S").ok())
        .and_then(|s| s.parse().ok())
        .unwrap_or(match tier {
            Tier::Quick => 150.0,
            Tier::Thorough => 3600.0,
        });
    let child_out = arg_val(args, "--child-out");
    // The work itself runs in a child process ("--inner"): if lzma-rs takes the
    // whole process down (stack overflow, abort), this process finds the run that
    // does it and reports it as a violation with a replay file.
    if !args.iter().any(|a| a == "--inner") && std::env::var("LZSIM_NO_SUPERVISE").is_err() {
        return supervise_check(args, prop, &pid, tier, seed, &verif_dir, child_out.is_none());
    }
    let opts = CheckOpts {
        tier,
        seed,
        jobs,
        budget_s,
        verif_dir: verif_dir.clone(),
        runs_override: arg_val(args, "--runs").and_then(|s| s.parse().ok()),
        child: child_out.is_some(),
        only_run: arg_val(args, "--only-run").and_then(|s| s.parse().ok()),
        journal: arg_val(args, "--journal"),
        dump: arg_val(args, "--dump-scenario"),
    };
    // oracle self-test first: a failure is a harness error, never a violation
    let st_n = if child_out.is_some() || opts.only_run.is_some() {
        0
    } else if tier == Tier::Thorough {
        3000
    } else {
        300
    };
    let mut selftest_note = String::from("skipped (child process)");
    if st_n > 0 {
        match selftest::run(st_n, seed) {
            Ok(m) => selftest_note = m,
            Err(e) => {
                eprintln!("HARNESS-ERROR: selftest: {}", e);
                return 2;
            }
        }
    }
    let t0 = std::time::Instant::now();
    let res = runner::check(prop, &opts);
    if res.exit == 2 {
        return 2;
    }
    if let Some(path) = child_out {
        // child of a two-profile check: hand the summary to the parent
        let _ = std::fs::write(&path, res.summary.to_string());
        return res.exit;
    }
    let mut exit = res.exit;
    // second arithmetic profile where the property quantifies over both
    let mut other = Json::Null;
    if prop.both_profiles() {
        if let Ok(exe) = std::env::current_exe() {
            let sibling = exe
                .to_string_lossy()
                .replace(" (deleted)", "")
                .replace("/checked/", "/release/");
            let tmp = format!("{}/replays/tmp", verif_dir);
            let _ = std::fs::create_dir_all(&tmp);
            let out = format!("{}/{}-wrapping-summary.json", tmp, pid);
            let _ = std::fs::remove_file(&out);
            if sibling != exe.to_string_lossy() && std::path::Path::new(&sibling).exists() {
                let st = std::process::Command::new(&sibling)
                    .args([
                        "check",
                        "--property",
                        &pid,
                        "--tier",
                        tier.name(),
                        "--seed",
                        &seed.to_string(),
                        "--jobs",
                        &jobs.to_string(),
                        "--budget-s",
                        &budget_s.to_string(),
                        "--verif-dir",
                        &verif_dir,
                        "--child-out",
                        &out,
                    ])
                    .status();
                match st.map(|s| s.code()) {
                    Ok(Some(0)) => {}
                    Ok(Some(1)) => exit = 1,
                    _ => {
                        eprintln!("HARNESS-ERROR: wrapping-profile child failed");
                        return 2;
                    }
                }
                other = std::fs::read_to_string(&out)
                    .ok()
                    .and_then(|s| Json::parse(&s).ok())
                    .unwrap_or(Json::Null);
                let _ = std::fs::remove_file(&out);
            } else {
                eprintln!("HARNESS-ERROR: release-profile binary not found next to {}", exe.display());
                return 2;
            }
        }
    }
    // evidence
    let s = &res.summary;
    let g = |k: &str| s.get(k).cloned().unwrap_or(Json::Null);
    let viol_count = (if res.exit == 1 { 1 } else { 0 })
        + (if exit == 1 && res.exit != 1 { 1 } else { 0 });
    let mut cov = Json::obj()
        .with("evaluations", g("evaluations"))
        .with("distinct_nontrivial", g("distinct_nontrivial"))
        .with("nontrivial_evaluations", g("nontrivial"))
        .with("distinct_counting", g("distinct_counting"))
        .with("rule", Json::str(prop.rule()))
        .with("samples", g("samples"))
        .with("exhaustive", Json::Bool(prop.exhaustive()))
        .with("seeded_runs", g("seeded_runs"))
        .with("seeded_runs_planned", g("seeded_runs_planned"))
        .with("stopped_by_time_budget", g("stopped_by_time_budget"))
        .with("runs_per_hour", g("runs_per_hour"))
        .with("logical_events", g("logical_events"))
        .with(
            "simulated_time",
            Json::str("n/a: the system under test has no clock; logical time = simulator events (I/O calls + API calls), see logical_events"),
        )
        .with("arithmetic_profile", g("profile"))
        .with(
            "faults",
            Json::obj()
                .with("configured", g("faults_configured"))
                .with("fired", g("faults_fired")),
        )
        .with("probes", g("probes"))
        .with("arms", g("arms"))
        .with("verdicts", g("verdicts"))
        .with("maxima", g("maxima"))
        .with("observations", g("observations"))
        .with("known_findings_observed", g("known_findings_observed"))
        .with(
            "components",
            Json::obj()
                .with(
                    "real",
                    Json::Arr(vec![
                        Json::str("lzma-rs compiled from /repo's working tree, features stream + raw_decoder (everything under test)"),
                        Json::str("std::io::{BufReader, Cursor, Take}"),
                        Json::str("byteorder, crc"),
                        Json::str("system allocator (metered, not replaced)"),
                    ]),
                )
                .with(
                    "stub",
                    Json::Arr(vec![
                        Json::str("byte source (SimSource / ShortReader)"),
                        Json::str("sink (SimSink)"),
                        Json::str("scripted caller of Stream / raw decoders"),
                    ]),
                )
                .with(
                    "oracle_only",
                    Json::Arr(vec![
                        Json::str("reference LZ model, transparent encoder, reference decoder, XZ writer/judge (sim/src/refmodel)"),
                        Json::str("liblzma via rust-lzma (self-test only)"),
                    ]),
                ),
        )
        .with("oracle_selftest", Json::str(&selftest_note));
    if other != Json::Null {
        let mut o = other.clone();
        if let Json::Obj(items) = &mut o {
            items.retain(|(k, _)| k != "samples");
        }
        cov.set("wrapping_profile", o);
    }
    let ev = Json::obj()
        .with("property_id", Json::str(&pid))
        .with("tier", Json::str(tier.name()))
        .with("seed", Json::Int(seed as i128))
        .with("level", Json::str(prop.level()))
        .with("coverage", cov)
        .with(
            "assumptions",
            Json::Arr(prop.assumptions().iter().map(|a| Json::str(a)).collect()),
        )
        .with("wall_s", Json::Float(t0.elapsed().as_secs_f64()))
        .with("violations", Json::Int(viol_count as i128))
        .with("replay", g("replay"));
    let dir = format!("{}/evidence", verif_dir);
    let _ = std::fs::create_dir_all(&dir);
    let path = format!("{}/{}.json", dir, pid);
    if let Err(e) = std::fs::write(&path, ev.to_pretty()) {
        eprintln!("HARNESS-ERROR: cannot write {}: {}", path, e);
        return 2;
    }
    println!(
        "{} {} seed={} evaluations={} distinct_nontrivial={} wall={:.1}s exit={}",
        pid,
        tier.name(),
        seed,
        g("evaluations").as_u64().unwrap_or(0),
        g("distinct_nontrivial").as_u64().unwrap_or(0),
        t0.elapsed().as_secs_f64(),
        exit
    );
    exit
}


fn own_exe() -> String {
    std::env::current_exe()
        .map(|e| e.to_string_lossy().replace(" (deleted)", ""))
        .unwrap_or_else(|_| "lzsim".into())
}

fn death_note(st: &std::process::ExitStatus) -> String {
    use std::os::unix::process::ExitStatusExt;
    match (st.code(), st.signal()) {
        (_, Some(sig)) => format!("killed by signal {}", sig),
        (Some(c), None) => format!("exit code {}", c),
        _ => "died".into(),
    }
}

/// Parent side of a check: run the real check as a child; 0/1/2 are passed on. If
/// the child dies any other way, re-run the runs that were in flight one by one
/// (each in its own process, dumping every scenario before it executes) until
/// one dies the same way, and report that one.
fn supervise_check(
    args: &[String],
    prop: &'static dyn runner::Property,
    pid: &str,
    tier: Tier,
    seed: u64,
    verif_dir: &str,
    top_level: bool,
) -> i32 {
    let t0 = std::time::Instant::now();
    let exe = own_exe();
    let tmp = format!("{}/replays/tmp", verif_dir);
    let _ = std::fs::create_dir_all(&tmp);
    let journal = format!("{}/{}-{}-journal.bin", tmp, pid, std::process::id());
    let _ = std::fs::remove_file(&journal);
    let st = std::process::Command::new(&exe)
        .args(&args[1..])
        .args(["--inner", "--journal", &journal])
        .status();
    let st = match st {
        Ok(s) => s,
        Err(e) => {
            eprintln!("HARNESS-ERROR: cannot start {}: {}", exe, e);
            return 2;
        }
    };
    if let Some(c) = st.code() {
        if c == 0 || c == 1 || c == 2 {
            let _ = std::fs::remove_file(&journal);
            return c;
        }
    }
    let how = death_note(&st);
    eprintln!("note: the check process died ({}); looking for the run that does it", how);
    let mut cands: Vec<u64> = std::fs::read(&journal)
        .unwrap_or_default()
        .chunks(8)
        .filter(|c| c.len() == 8)
        .map(|c| u64::from_le_bytes([c[0], c[1], c[2], c[3], c[4], c[5], c[6], c[7]]))
        .filter(|v| *v > 0)
        .map(|v| v - 1)
        .collect();
    let _ = std::fs::remove_file(&journal);
    cands.sort();
    cands.dedup();
    let evaluated_upto = cands.iter().max().copied().unwrap_or(0);
    let completed_before = cands.iter().min().copied().unwrap_or(0);
    for i in cands {
        let dump = format!("{}/{}-{}-dump.json", tmp, pid, i);
        let _ = std::fs::remove_file(&dump);
        let base = ["check", "--property", pid, "--tier", tier.name(), "--seed", &seed.to_string(), "--verif-dir", verif_dir, "--jobs", "1", "--inner", "--only-run", &i.to_string()];
        let st2 = std::process::Command::new(&exe)
            .args(base)
            .args(["--dump-scenario", &dump])
            .stdout(std::process::Stdio::null())
            .stderr(std::process::Stdio::null())
            .status();
        let st2 = match st2 {
            Ok(s) => s,
            Err(_) => continue,
        };
        match st2.code() {
            Some(0) | Some(2) => {
                let _ = std::fs::remove_file(&dump);
                continue;
            }
            Some(1) => {
                // an ordinary violation after all: let that run report it itself
                let _ = std::fs::remove_file(&dump);
                let st3 = std::process::Command::new(&exe).args(base).status();
                return st3.ok().and_then(|s| s.code()).unwrap_or(2);
            }
            _ => {}
        }
        let how2 = death_note(&st2);
        let sc = std::fs::read_to_string(&dump).ok().and_then(|s| Json::parse(&s).ok()).unwrap_or(Json::Null);
        let _ = std::fs::remove_file(&dump);
        let _ = std::fs::create_dir_all(format!("{}/replays", verif_dir));
        let path = format!("{}/replays/{}-{}-{}-{}.json", verif_dir, pid, runner::profile(), seed, i);
        let detail = format!(
            "the process executing this case died ({}): neither success nor an error value was returned",
            how2
        );
        let j = Json::obj()
            .with("format", Json::Int(1))
            .with("property", Json::str(pid))
            .with("profile", Json::str(runner::profile()))
            .with(
                "found_by",
                Json::obj()
                    .with("seed", Json::Int(seed as i128))
                    .with("run", Json::Int(i as i128))
                    .with("tier", Json::str(tier.name())),
            )
            .with("scenario", sc.clone())
            .with(
                "violation",
                Json::obj()
                    .with("class", Json::str("process_death"))
                    .with("locus", Json::str(&how2))
                    .with("detail", Json::str(&detail)),
            );
        if std::fs::write(&path, j.to_pretty()).is_err() {
            eprintln!("HARNESS-ERROR: cannot write {}", path);
            return 2;
        }
        println!("violation: class=process_death locus={} detail={}", how2, detail);
        println!("VIOLATION property={} replay={}", pid, path);
        if top_level {
            let cov = Json::obj()
                .with("evaluations", Json::Int(evaluated_upto as i128 + 1))
                .with("distinct_nontrivial", Json::Int(completed_before.max(2) as i128))
                .with("rule", Json::str(prop.rule()))
                .with("samples", Json::Arr(vec![sc]))
                .with("exhaustive", Json::Bool(false))
                .with(
                    "note",
                    Json::str("the checking process was killed by the code under test; counts are taken from the run journal (evaluations = highest run index started + 1; distinct_nontrivial = runs completed before the smallest run index in flight, each a differently seeded case), the sample is the case that kills it"),
                )
                .with(
                    "faults",
                    Json::obj().with("configured", Json::obj()).with("fired", Json::obj()),
                );
            let ev = Json::obj()
                .with("property_id", Json::str(pid))
                .with("tier", Json::str(tier.name()))
                .with("seed", Json::Int(seed as i128))
                .with("level", Json::str(prop.level()))
                .with("coverage", cov)
                .with("wall_s", Json::Float(t0.elapsed().as_secs_f64()))
                .with("violations", Json::Int(1))
                .with("replay", Json::str(&path));
            let _ = std::fs::create_dir_all(format!("{}/evidence", verif_dir));
            let _ = std::fs::write(format!("{}/evidence/{}.json", verif_dir, pid), ev.to_pretty());
            println!("{} {} seed={} wall={:.1}s exit=1 (process death)", pid, tier.name(), seed, t0.elapsed().as_secs_f64());
        }
        return 1;
    }
    eprintln!("HARNESS-ERROR: the check process died ({}) and no single run reproduces it", how);
    2
}

/// Prove the simulator deterministic: every property, the same seeds, executed
/// with 16, 5 and 1 workers (and twice with 16) must measure exactly the same
/// thing (order-independent fingerprint over case ids, event-log hashes and
/// every counter).
fn cmd_determinism(args: &[String]) -> i32 {
    let runs: u64 = arg_val(args, "--runs").and_then(|s| s.parse().ok()).unwrap_or(3000);
    let seeds: Vec<u64> = arg_val(args, "--seeds")
        .map(|s| s.split(',').filter_map(|x| x.parse().ok()).collect())
        .unwrap_or_else(|| vec![1, 2, 3]);
    let only = arg_val(args, "--property");
    let verif_dir = arg_val(args, "--verif-dir").unwrap_or_else(|| "/verif".into());
    let mut bad = 0;
    for prop in props::all() {
        if let Some(o) = &only {
            if o != prop.id() {
                continue;
            }
        }
        for seed in &seeds {
            let mut prints = Vec::new();
            for jobs in [16usize, 16, 5, 1] {
                let r = if prop.runs(Tier::Quick) < 5000 { runs / 20 + 5 } else { runs };
                let opts = CheckOpts {
                    tier: Tier::Quick,
                    seed: *seed,
                    jobs,
                    budget_s: 600.0,
                    verif_dir: verif_dir.clone(),
                    runs_override: Some(r),
                    child: true,
                    only_run: None,
                    journal: None,
                    dump: None,
                };
                let res = runner::check(prop, &opts);
                let fp = res
                    .summary
                    .get("fingerprint")
                    .and_then(|x| x.as_str())
                    .unwrap_or("?")
                    .to_string();
                prints.push((jobs, fp, res.exit));
            }
            let same = prints.iter().all(|p| p.1 == prints[0].1 && p.2 == prints[0].2);
            println!(
                "{} seed {}: {} {}",
                prop.id(),
                seed,
                prints.iter().map(|p| format!("{}w:{}", p.0, p.1)).collect::<Vec<_>>().join(" "),
                if same { "DETERMINISTIC" } else { "DIVERGES" }
            );
            if !same {
                bad += 1;
            }
        }
    }
    if bad > 0 {
        eprintln!("HARNESS-ERROR: {} (property, seed) pairs diverged", bad);
        2
    } else {
        0
    }
}
