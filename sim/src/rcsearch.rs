//! `lzsim rcwitness`: search for short plaintexts that drive the range ENCODER's
//! 33-bit `low` register to an exact boundary value at the moment a byte is
//! shifted out (the comparison that decides "emit / defer / carry"). Random data
//! reaches a given value with probability ~2^-32 per compressed byte, so the
//! witnesses are found once by this tool and embedded in gen.rs as constants.
//! The model below is the literal-only encoder lzma-rs implements (lc=3, lp=0,
//! pb=2), i.e. the reference encoder fed with literals.

use std::sync::atomic::{AtomicBool, Ordering};
use std::sync::Mutex;

pub const TARGETS: [u64; 4] = [0xFEFF_FFFF, 0xFF00_0000, 0xFFFF_FFFF, 0x1_0000_0000];

struct Model {
    low: u64,
    range: u32,
    lit: [[u16; 0x300]; 8],
    is_match: [u16; 4],
    hit: Option<u64>,
}

thread_local! {
    static SHIFTS: std::cell::Cell<u64> = const { std::cell::Cell::new(0) };
}

impl Model {
    fn new() -> Model {
        Model { low: 0, range: 0xFFFF_FFFF, lit: [[0x400; 0x300]; 8], is_match: [0x400; 4], hit: None }
    }
    #[inline]
    fn shift(&mut self) {
        // the value the encoder compares when it shifts a byte out
        if self.low >= 0xFEFF_FFFF && TARGETS.contains(&self.low) {
            self.hit = Some(self.low);
        }
        self.low = (self.low << 8) & 0xFFFF_FFFF;
        SHIFTS.with(|c| c.set(c.get() + 1));
    }
    fn shift_count(&self) -> u64 {
        SHIFTS.with(|c| c.get())
    }
    #[inline]
    fn bit(&mut self, ctx: usize, idx: usize, bit: bool, is_match: bool) {
        let p = if is_match { &mut self.is_match[idx] } else { &mut self.lit[ctx][idx] };
        let bound = (self.range >> 11) * (*p as u32);
        if bit {
            *p -= *p >> 5;
            self.low += bound as u64;
            self.range -= bound;
        } else {
            *p += (0x800 - *p) >> 5;
            self.range = bound;
        }
        while self.range < 0x0100_0000 {
            self.range <<= 8;
            self.shift();
        }
    }
    fn byte(&mut self, pos: usize, prev: u8, b: u8) {
        self.bit(0, pos & 3, false, true);
        let ctx = (prev >> 5) as usize;
        let mut r = 1usize;
        for i in 0..8 {
            let bit = (b >> (7 - i)) & 1 != 0;
            self.bit(ctx, r, bit, false);
            r = (r << 1) ^ (bit as usize);
        }
    }
}

/// A plaintext of roughly `about` random bytes whose literal-only encoding WITHOUT
/// end marker is exactly `target` bytes long (range-coder body: one byte per shift
/// plus the five flush bytes). The last bytes are re-chosen until the length fits.
pub fn plain_with_body_len(seed: u64, target: u64) -> Option<Vec<u8>> {
    let mut x = crate::prng::Xoshiro::new(seed);
    let mut m = Model::new();
    let mut shifts = 0u64;
    let mut plain: Vec<u8> = Vec::new();
    let mut prev = 0u8;
    if target < 6 {
        return None;
    }
    loop {
        // body length if we stopped now
        let now = shifts + 5;
        if now == target && !plain.is_empty() {
            return Some(plain);
        }
        if now > target {
            return None;
        }
        if target - now > 6 {
            // far from the target: any byte will do
            let b = x.next() as u8;
            let before = m.shift_count();
            m.byte(plain.len(), prev, b);
            shifts += m.shift_count() - before;
            plain.push(b);
            prev = b;
            continue;
        }
        // try candidate bytes: any that does not overshoot; prefer an exact hit
        let mut chosen: Option<(u8, Model, u64)> = None;
        for _ in 0..24 {
            let b = x.next() as u8;
            let mut m2 = Model { low: m.low, range: m.range, lit: m.lit, is_match: m.is_match, hit: None };
            let before = m2.shift_count();
            m2.byte(plain.len(), prev, b);
            let add = m2.shift_count() - before;
            let after = shifts + add + 5;
            if after == target {
                chosen = Some((b, m2, add));
                break;
            }
            if after < target && chosen.is_none() {
                chosen = Some((b, m2, add));
            }
        }
        let (b, m2, add) = chosen?;
        m = m2;
        shifts += add;
        plain.push(b);
        prev = b;
    }
}

/// The value of `low` at every shift while the literal-only encoder codes `plain`
/// (used by the self-test to confirm an embedded witness still does what it says).
pub fn lows_at_shifts(plain: &[u8]) -> Vec<u64> {
    let mut m = Model::new();
    let mut out = Vec::new();
    let mut prev = 0u8;
    for (i, b) in plain.iter().enumerate() {
        // replicate byte() but record every shift
        let before = m.hit;
        let _ = before;
        let mut rec = |m: &mut Model, ctx: usize, idx: usize, bit: bool, is_match: bool, out: &mut Vec<u64>| {
            let p = if is_match { &mut m.is_match[idx] } else { &mut m.lit[ctx][idx] };
            let bound = (m.range >> 11) * (*p as u32);
            if bit {
                *p -= *p >> 5;
                m.low += bound as u64;
                m.range -= bound;
            } else {
                *p += (0x800 - *p) >> 5;
                m.range = bound;
            }
            while m.range < 0x0100_0000 {
                m.range <<= 8;
                out.push(m.low);
                m.low = (m.low << 8) & 0xFFFF_FFFF;
            }
        };
        rec(&mut m, 0, i & 3, false, true, &mut out);
        let ctx = (prev >> 5) as usize;
        let mut r = 1usize;
        for k in 0..8 {
            let bit = (*b >> (7 - k)) & 1 != 0;
            rec(&mut m, ctx, r, bit, false, &mut out);
            r = (r << 1) ^ (bit as usize);
        }
        prev = *b;
    }
    out
}

pub fn run(seed: u64, max_seconds: u64, threads: usize) -> i32 {
    let found: Mutex<Vec<(u64, Vec<u8>)>> = Mutex::new(Vec::new());
    let done = AtomicBool::new(false);
    let t0 = std::time::Instant::now();
    std::thread::scope(|s| {
        for w in 0..threads {
            let found = &found;
            let done = &done;
            s.spawn(move || {
                let mut x = crate::prng::Xoshiro::new(seed ^ (w as u64).wrapping_mul(0x9E37_79B9_7F4A_7C15));
                let mut buf = [0u8; 400];
                let mut n = 0u64;
                while !done.load(Ordering::Relaxed) {
                    let mut m = Model::new();
                    let mut prev = 0u8;
                    for i in 0..buf.len() {
                        let b = x.next() as u8;
                        buf[i] = b;
                        m.byte(i, prev, b);
                        prev = b;
                        if let Some(t) = m.hit {
                            let mut v = buf[..=i].to_vec();
                            for _ in 0..12 {
                                v.push(x.next() as u8);
                            }
                            let mut f = found.lock().unwrap();
                            if !f.iter().any(|e| e.0 == t) {
                                println!("target {:#x}: {} bytes: {}", t, v.len(), v.iter().map(|b| format!("{:02x}", b)).collect::<String>());
                                f.push((t, v));
                            }
                            if f.len() == TARGETS.len() {
                                done.store(true, Ordering::Relaxed);
                            }
                            break;
                        }
                    }
                    n += 1;
                    if n % 4096 == 0 && t0.elapsed().as_secs() > max_seconds {
                        done.store(true, Ordering::Relaxed);
                    }
                }
            });
        }
    });
    let f = found.lock().unwrap();
    eprintln!("found {} of {} targets in {:.0}s", f.len(), TARGETS.len(), t0.elapsed().as_secs_f64());
    0
}

// ---------------------------------------------------------------- direct bits
//
// The decoder's range register, right before it halves the range for a direct
// bit of a long distance, sits exactly on the boundary between "halving calls
// for a refill byte" and "it does not" about once in 2^26 direct bits. A slip
// in that comparison is invisible to random symbol programs. `lzsim dbwitness`
// searches for programs that put the register on each value of
// `DIRECT_BIT_WATCH`; the ones found are embedded in `gen::DIRECT_BIT_WITNESSES`
// and rebuilt (and re-verified by the self-test) from (tail seed, symbol count).

use crate::refmodel::codec::{Props, RefEnc, DIRECT_BIT_WATCH};
use crate::refmodel::lz::Sym;

pub const DB_DICT: u64 = 1 << 20;

/// 1 MiB of history from a literal and dist-1 matches, then (from the probabilities'
/// point of view) a warm-up of 64 far matches.
pub fn db_base() -> RefEnc {
    let mut enc = RefEnc::new(Props { lc: 3, lp: 0, pb: 2 }, DB_DICT);
    enc.keep_trace = false;
    let _ = enc.encode(Sym::Lit(0x41));
    while (enc.model.out.len() as u64) < DB_DICT - 300 {
        let _ = enc.encode(Sym::Match { dist: 1, len: 273 });
    }
    enc
}

#[inline]
fn db_next(x: &mut crate::prng::Xoshiro, avail: u64) -> Sym {
    let r = x.next();
    if r % 11 == 0 {
        return Sym::Lit((r >> 8) as u8);
    }
    let lo = 1u64 << 16;
    let dist = lo + (r >> 16) % (avail.min(DB_DICT) - lo);
    Sym::Match { dist: dist as u32, len: 2 + ((r >> 4) % 5) as u32 }
}

/// Encode `nsyms` tail symbols drawn from `seed` onto `enc`; returns the watch mask.
pub fn db_tail(enc: &mut RefEnc, seed: u64, nsyms: u32) -> u32 {
    let mut x = crate::prng::Xoshiro::new(seed);
    for _ in 0..nsyms {
        let s = db_next(&mut x, enc.model.avail() as u64);
        let _ = enc.encode(s);
    }
    enc.direct_bit_watch()
}

/// (properties, dictionary, payload, expected output, watch mask) of witness (seed, nsyms)
pub fn build_db_witness(seed: u64, nsyms: u32, marker: bool) -> (Props, u64, Vec<u8>, Vec<u8>, u32) {
    let mut enc = db_base();
    let mask = db_tail(&mut enc, seed, nsyms);
    if marker {
        enc.encode_end_marker();
    }
    let props = enc.props();
    let payload = enc.finish_segment();
    (props, DB_DICT, payload, std::mem::take(&mut enc.model.out), mask)
}

pub fn run_db(seed: u64, max_seconds: u64, threads: usize) -> i32 {
    let found: Mutex<Vec<(u32, u64, u32)>> = Mutex::new(Vec::new());
    let done = AtomicBool::new(false);
    let t0 = std::time::Instant::now();
    let base = db_base();
    std::thread::scope(|s| {
        for w in 0..threads {
            let found = &found;
            let done = &done;
            let base = &base;
            s.spawn(move || {
                let mut n = 0u64;
                while !done.load(Ordering::Relaxed) {
                    let tail_seed = seed.wrapping_mul(0x9E37_79B9_7F4A_7C15) ^ ((w as u64) << 40) ^ n;
                    n += 1;
                    let mut enc = base.clone();
                    let mut x = crate::prng::Xoshiro::new(tail_seed);
                    let mut seen = 0u32;
                    for k in 0..3000u32 {
                        let s = db_next(&mut x, enc.model.avail() as u64);
                        let _ = enc.encode(s);
                        let m = enc.direct_bit_watch();
                        if m != seen {
                            let newbits = m & !seen;
                            seen = m;
                            let mut f = found.lock().unwrap();
                            for i in 0..DIRECT_BIT_WATCH.len() as u32 {
                                if newbits & (1 << i) != 0 && !f.iter().any(|e| e.0 == i) {
                                    // 40 more symbols after the hit, so that a decoder that
                                    // went out of step has something to get wrong
                                    println!("    ({:#x}, {}, {}), // range {:#010x} before a direct bit", tail_seed, k + 41, i, DIRECT_BIT_WATCH[i as usize]);
                                    f.push((i, tail_seed, k + 41));
                                }
                            }
                            if f.len() == DIRECT_BIT_WATCH.len() {
                                done.store(true, Ordering::Relaxed);
                            }
                        }
                    }
                    if t0.elapsed().as_secs() > max_seconds {
                        done.store(true, Ordering::Relaxed);
                    }
                }
            });
        }
    });
    let f = found.lock().unwrap();
    eprintln!("found {} of {} values in {:.0}s", f.len(), DIRECT_BIT_WATCH.len(), t0.elapsed().as_secs_f64());
    0
}
