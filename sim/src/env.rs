//! The simulated environment: byte source, sink and their fault plans.
//!
//! These are the only stubs in the system. Everything they do is decided by
//! the scenario (explicit integer scripts), they count every call, fire faults
//! at scripted call indices, record what *fired* (not what was configured) and
//! fold every call into an event-log hash.

use crate::prng::Hash64;
use std::cell::RefCell;
use std::io::{self, BufRead, Read, Write};
use std::rc::Rc;

pub const FK_NONE: u64 = 0;
pub const FK_OTHER: u64 = 1;
pub const FK_WOULDBLOCK: u64 = 2;
pub const FK_UNEXPECTED_EOF: u64 = 3;
/// retryable: std's read_exact / write_all / Bytes retry on it
pub const FK_INTERRUPTED: u64 = 4;
/// sink only: `write` returns Ok(0) for a non-empty buffer
pub const FK_WRITE_ZERO: u64 = 5;
/// sink only: "disk full" — this and every later write fails
pub const FK_DISK_FULL: u64 = 6;
/// sink only: a broken sink that claims to have accepted more than it was given is
/// not modelled (it violates the Write contract).

pub fn fk_name(k: u64) -> &'static str {
    match k {
        FK_NONE => "none",
        FK_OTHER => "other",
        FK_WOULDBLOCK => "would_block",
        FK_UNEXPECTED_EOF => "unexpected_eof",
        FK_INTERRUPTED => "interrupted",
        FK_WRITE_ZERO => "write_zero",
        FK_DISK_FULL => "disk_full",
        _ => "unknown",
    }
}

pub fn fk_is_hard(k: u64) -> bool {
    k != FK_NONE && k != FK_INTERRUPTED
}

fn mk_err(kind: u64) -> io::Error {
    match kind {
        FK_WOULDBLOCK => io::Error::new(io::ErrorKind::WouldBlock, "sim: would block"),
        FK_UNEXPECTED_EOF => io::Error::new(io::ErrorKind::UnexpectedEof, "sim: unexpected eof"),
        FK_INTERRUPTED => io::Error::new(io::ErrorKind::Interrupted, "sim: interrupted"),
        FK_DISK_FULL => io::Error::new(io::ErrorKind::Other, "sim: no space left on device"),
        _ => io::Error::new(io::ErrorKind::Other, "sim: injected I/O error"),
    }
}

/// Fault plan: list of (1-based call index, kind). A kind of FK_DISK_FULL is
/// sticky from that call on.
#[derive(Clone, Debug, Default)]
pub struct Faults {
    pub at: Vec<(u64, u64)>,
}

impl Faults {
    pub fn none() -> Faults {
        Faults { at: Vec::new() }
    }
    pub fn one(call: u64, kind: u64) -> Faults {
        if kind == FK_NONE || call == 0 {
            Faults::none()
        } else {
            Faults {
                at: vec![(call, kind)],
            }
        }
    }
    /// flat list form used in scenarios: [call, kind, call, kind, ...]
    pub fn from_list(l: &[u64]) -> Faults {
        let mut at = Vec::new();
        for p in l.chunks(2) {
            if p.len() == 2 && p[0] != 0 && p[1] != FK_NONE {
                at.push((p[0], p[1]));
            }
        }
        Faults { at }
    }
    pub fn to_list(&self) -> Vec<u64> {
        let mut v = Vec::new();
        for (c, k) in &self.at {
            v.push(*c);
            v.push(*k);
        }
        v
    }
    #[inline]
    fn hit(&self, call: u64) -> u64 {
        for (c, k) in &self.at {
            if *c == call || (*k == FK_DISK_FULL && call >= *c) {
                return *k;
            }
        }
        FK_NONE
    }
}

/// What happened at the source during a run.
#[derive(Clone, Debug, Default)]
pub struct SourceReport {
    pub calls: u64,
    pub consumed: usize,
    pub fired_hard: u32,
    pub fired_retryable: u32,
    pub log: u64,
    /// smallest number of bytes ever exposed by one refill (reach probe)
    pub refills_1byte: u64,
}

/// `Read + BufRead` over the scenario bytes with a BufReader-like contract:
/// refill only when the exposed window is empty, refill size from the script
/// (0 = everything that is left), `read` returns at most what is exposed.
pub struct SimSource<'a> {
    data: &'a [u8],
    pos: usize,
    end: usize,
    script: &'a [u64],
    si: usize,
    faults: Faults,
    /// false: calls are counted, and faults fire, per refill (a buffered reader
    /// over a failing device). true: every `read`/`fill_buf` call counts and may
    /// fail, also while bytes are still exposed (a source that checks a deadline
    /// or a cancellation flag on every call).
    pub any_call: bool,
    pub rep: SourceReport,
    log: Hash64,
}

impl<'a> SimSource<'a> {
    pub fn new(data: &'a [u8], script: &'a [u64], faults: Faults) -> Self {
        SimSource {
            data,
            pos: 0,
            end: 0,
            script,
            si: 0,
            faults,
            any_call: false,
            rep: SourceReport::default(),
            log: Hash64::new(),
        }
    }
    pub fn benign(data: &'a [u8]) -> Self {
        SimSource::new(data, &[], Faults::none())
    }
    pub fn report(&self) -> SourceReport {
        let mut r = self.rep.clone();
        r.consumed = self.pos;
        r.log = self.log.get();
        r
    }
    pub fn consumed(&self) -> usize {
        self.pos
    }
    #[inline]
    fn fault_point(&mut self) -> io::Result<()> {
        self.rep.calls += 1;
        let k = self.faults.hit(self.rep.calls);
        if k != FK_NONE {
            if fk_is_hard(k) {
                self.rep.fired_hard += 1;
            } else {
                self.rep.fired_retryable += 1;
            }
            self.log.u(0x5100 + k);
            return Err(mk_err(k));
        }
        Ok(())
    }
    fn refill(&mut self) -> io::Result<()> {
        if !self.any_call {
            self.fault_point()?;
        }
        let left = self.data.len() - self.pos;
        let want = if self.script.is_empty() {
            0
        } else {
            let v = self.script[self.si % self.script.len()];
            self.si += 1;
            v
        };
        let n = if want == 0 {
            left
        } else {
            (want as usize).min(left)
        };
        if n == 1 {
            self.rep.refills_1byte += 1;
        }
        self.end = self.pos + n;
        self.log.u(0x5200 + n as u64);
        Ok(())
    }
}

impl<'a> Read for SimSource<'a> {
    fn read(&mut self, buf: &mut [u8]) -> io::Result<usize> {
        if buf.is_empty() {
            return Ok(0);
        }
        if self.any_call {
            self.fault_point()?;
        }
        if self.pos == self.end {
            self.refill()?;
        }
        let n = (self.end - self.pos).min(buf.len());
        buf[..n].copy_from_slice(&self.data[self.pos..self.pos + n]);
        self.pos += n;
        self.log.u(0x5300 + n as u64);
        Ok(n)
    }
}

impl<'a> BufRead for SimSource<'a> {
    fn fill_buf(&mut self) -> io::Result<&[u8]> {
        if self.any_call {
            self.fault_point()?;
        }
        if self.pos == self.end {
            self.refill()?;
        }
        Ok(&self.data[self.pos..self.end])
    }
    fn consume(&mut self, amt: usize) {
        let amt = amt.min(self.end - self.pos);
        self.pos += amt;
        self.log.u(0x5400 + amt as u64);
    }
}

/// Plain `Read` that returns short reads according to a script; used as the
/// inner reader of a real `std::io::BufReader`.
pub struct ShortReader<'a> {
    data: &'a [u8],
    pub pos: usize,
    script: &'a [u64],
    si: usize,
    faults: Faults,
    pub calls: u64,
    pub fired_hard: u32,
    pub fired_retryable: u32,
}

impl<'a> ShortReader<'a> {
    pub fn new(data: &'a [u8], script: &'a [u64], faults: Faults) -> Self {
        ShortReader {
            data,
            pos: 0,
            script,
            si: 0,
            faults,
            calls: 0,
            fired_hard: 0,
            fired_retryable: 0,
        }
    }
}

impl<'a> Read for ShortReader<'a> {
    fn read(&mut self, buf: &mut [u8]) -> io::Result<usize> {
        if buf.is_empty() {
            return Ok(0);
        }
        self.calls += 1;
        let k = self.faults.hit(self.calls);
        if k != FK_NONE {
            if fk_is_hard(k) {
                self.fired_hard += 1;
            } else {
                self.fired_retryable += 1;
            }
            return Err(mk_err(k));
        }
        let left = self.data.len() - self.pos;
        let want = if self.script.is_empty() {
            0
        } else {
            let v = self.script[self.si % self.script.len()];
            self.si += 1;
            v
        };
        let mut n = left.min(buf.len());
        if want != 0 {
            n = n.min(want as usize);
        }
        buf[..n].copy_from_slice(&self.data[self.pos..self.pos + n]);
        self.pos += n;
        Ok(n)
    }
}

/// Observable state of the sink; shared so that it survives the sink being
/// moved into (and dropped by) a `Stream`.
#[derive(Debug, Default)]
pub struct SinkState {
    pub accepted: Vec<u8>,
    pub expect: Option<Rc<Vec<u8>>>,
    /// offset of the first accepted byte that is not what `expect` has there
    pub first_bad: Option<usize>,
    pub writes: u64,
    pub flushes: u64,
    /// accepted length at the time of the last successful flush
    pub flushed_len: usize,
    pub fired_hard: u32,
    pub fired_retryable: u32,
    pub short_writes: u64,
    /// number of bytes accepted after the first hard fault fired
    pub accepted_after_fault: usize,
    pub log: u64,
    /// when set, the sink does not store what it accepts (only counts)
    pub count_only: bool,
    /// total bytes accepted (also when count_only)
    pub total: usize,
    /// "disk full": once `total` reaches this many bytes every write fails (0 = no cap)
    pub cap: usize,
}

pub type SinkHandle = Rc<RefCell<SinkState>>;

impl std::fmt::Debug for SimSink {
    fn fmt(&self, f: &mut std::fmt::Formatter) -> std::fmt::Result {
        write!(f, "SimSink")
    }
}

pub struct SimSink {
    pub st: SinkHandle,
    script: Vec<u64>,
    si: usize,
    wfaults: Faults,
    ffaults: Faults,
    log: Hash64,
}

impl SimSink {
    pub fn new(
        expect: Option<Rc<Vec<u8>>>,
        script: &[u64],
        wfaults: Faults,
        ffaults: Faults,
    ) -> (SimSink, SinkHandle) {
        let st = Rc::new(RefCell::new(SinkState {
            expect,
            ..Default::default()
        }));
        (
            SimSink {
                st: st.clone(),
                script: script.to_vec(),
                si: 0,
                wfaults,
                ffaults,
                log: Hash64::new(),
            },
            st,
        )
    }
    pub fn benign(expect: Option<Rc<Vec<u8>>>) -> (SimSink, SinkHandle) {
        SimSink::new(expect, &[], Faults::none(), Faults::none())
    }
}

impl Write for SimSink {
    fn write(&mut self, buf: &[u8]) -> io::Result<usize> {
        if buf.is_empty() {
            return Ok(0);
        }
        let mut st = self.st.borrow_mut();
        st.writes += 1;
        let k = self.wfaults.hit(st.writes);
        if k != FK_NONE {
            if fk_is_hard(k) {
                st.fired_hard += 1;
            } else {
                st.fired_retryable += 1;
            }
            self.log.u(0x7100 + k);
            st.log = self.log.get();
            if k == FK_WRITE_ZERO {
                return Ok(0);
            }
            return Err(mk_err(k));
        }
        let want = if self.script.is_empty() {
            0
        } else {
            let v = self.script[self.si % self.script.len()];
            self.si += 1;
            v
        };
        let n = if want == 0 {
            buf.len()
        } else {
            (want as usize).min(buf.len())
        };
        if n < buf.len() {
            st.short_writes += 1;
        }
        let base = st.accepted.len();
        if st.first_bad.is_none() {
            if let Some(exp) = st.expect.clone() {
                for i in 0..n {
                    if base + i >= exp.len() || exp[base + i] != buf[i] {
                        st.first_bad = Some(base + i);
                        break;
                    }
                }
            }
        }
        if st.cap > 0 && st.total + n > st.cap {
            st.fired_hard += 1;
            return Err(mk_err(FK_DISK_FULL));
        }
        if !st.count_only {
            st.accepted.extend_from_slice(&buf[..n]);
        }
        st.total += n;
        if st.fired_hard > 0 {
            st.accepted_after_fault += n;
        }
        self.log.u(0x7200 + n as u64);
        st.log = self.log.get();
        Ok(n)
    }
    fn flush(&mut self) -> io::Result<()> {
        let mut st = self.st.borrow_mut();
        st.flushes += 1;
        let k = self.ffaults.hit(st.flushes);
        if k != FK_NONE {
            if fk_is_hard(k) {
                st.fired_hard += 1;
            } else {
                st.fired_retryable += 1;
            }
            self.log.u(0x7300 + k);
            st.log = self.log.get();
            return Err(mk_err(k));
        }
        st.flushed_len = st.accepted.len();
        self.log.u(0x7400);
        st.log = self.log.get();
        Ok(())
    }
}

/// Run a closure under catch_unwind with panic output silenced; returns the
/// panic message on unwind.
pub fn guarded<T, F: FnOnce() -> T>(f: F) -> Result<T, String> {
    let prev = crate::heap::enter_sut();
    let r = std::panic::catch_unwind(std::panic::AssertUnwindSafe(f));
    crate::heap::leave_sut(prev);
    match r {
        Ok(v) => Ok(v),
        Err(p) => {
            let msg = if let Some(s) = p.downcast_ref::<&str>() {
                s.to_string()
            } else if let Some(s) = p.downcast_ref::<String>() {
                s.clone()
            } else {
                "<non-string panic payload>".to_string()
            };
            let loc = LAST_PANIC_LOC.with(|l| l.borrow().clone());
            Err(format!("{} @ {}", msg, loc))
        }
    }
}

thread_local! {
    pub static LAST_PANIC_LOC: RefCell<String> = RefCell::new(String::new());
}

/// Install a panic hook that records the location instead of printing.
pub fn install_quiet_panic_hook() {
    std::panic::set_hook(Box::new(|info| {
        let loc = info
            .location()
            .map(|l| format!("{}:{}", l.file(), l.line()))
            .unwrap_or_else(|| "?".to_string());
        // strip the absolute prefix so that loci are stable
        let loc = loc.replace("/repo/", "");
        LAST_PANIC_LOC.with(|l| *l.borrow_mut() = loc);
    }));
}
