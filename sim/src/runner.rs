//! Seeded parallel search, shrinking, replay files, known findings, evidence.

use crate::json::Json;
use crate::prng::{mix, Tape};
use crate::scenario::{Scenario, Violation};
use crate::stats::Stats;
use std::sync::atomic::{AtomicBool, AtomicU64, Ordering};
use std::sync::{Arc, Mutex};
use std::time::{Duration, Instant};

#[derive(Clone, Copy, PartialEq, Eq, Debug)]
pub enum Tier {
    Quick,
    Thorough,
}

impl Tier {
    pub fn name(self) -> &'static str {
        match self {
            Tier::Quick => "quick",
            Tier::Thorough => "thorough",
        }
    }
}

/// Which arithmetic this binary (and the lzma-rs inside it) was built with,
/// detected at run time.
pub fn profile() -> &'static str {
    static P: std::sync::OnceLock<&'static str> = std::sync::OnceLock::new();
    P.get_or_init(|| {
        let r = std::panic::catch_unwind(|| {
            let x: u8 = std::hint::black_box(255);
            #[allow(arithmetic_overflow)]
            let y = x + std::hint::black_box(1);
            std::hint::black_box(y)
        });
        if r.is_err() {
            "checked"
        } else {
            "wrapping"
        }
    })
}

/// Per-worker context handed to properties.
pub struct Ctx {
    pub tier: Tier,
    pub stats: Stats,
    pub run_index: u64,
    /// scenario currently executing, visible to the hang supervisor
    pub current: Arc<Mutex<Option<Scenario>>>,
    /// true while shrinking / replaying: do not record samples
    pub quiet: bool,
    /// single-run triage mode: every scenario is written here before it executes
    pub dump_path: Option<String>,
}

impl Ctx {
    pub fn new(tier: Tier) -> Ctx {
        Ctx {
            tier,
            stats: Stats::new(),
            run_index: 0,
            current: Arc::new(Mutex::new(None)),
            quiet: false,
            dump_path: None,
        }
    }
    /// Announce the scenario about to be executed (hang backstop + samples).
    pub fn begin(&mut self, sc: &Scenario) {
        if let Ok(mut g) = self.current.lock() {
            *g = Some(sc.clone());
        }
        if let Some(p) = &self.dump_path {
            let _ = std::fs::write(p, sc.to_json(false).to_string());
        }
        if !self.quiet && self.stats.wants_sample(self.run_index) {
            self.stats.sample(self.run_index, sc);
        }
    }
}

pub trait Property: Sync {
    fn id(&self) -> &'static str;
    /// evidence level: "exploration" | "fault_enumeration"
    fn level(&self) -> &'static str;
    /// how cases are generated and what makes one distinct / non-trivial
    fn rule(&self) -> &'static str;
    /// number of seeded runs for a tier (each run may evaluate many cases)
    fn runs(&self, tier: Tier) -> u64;
    /// also run under the wrapping-arithmetic build
    fn both_profiles(&self) -> bool {
        false
    }
    fn assumptions(&self) -> Vec<&'static str>;
    /// Generate a scenario from the tape, execute it against the real code and
    /// judge it. Returns every violation found in this run.
    fn run(&self, tape: &mut Tape, ctx: &mut Ctx) -> Vec<Violation>;
    /// Re-execute an explicit scenario (replay file).
    fn replay(&self, sc: &Scenario, ctx: &mut Ctx) -> Vec<Violation>;
    /// extra deterministic enumeration executed once per check (thorough tier
    /// mostly); returns violations
    fn enumerate(&self, _ctx: &mut Ctx) -> Vec<Violation> {
        Vec::new()
    }
    fn exhaustive(&self) -> bool {
        false
    }
}

// ---------------------------------------------------------------- known findings

#[derive(Clone, Debug)]
pub struct Known {
    pub status: String,
    pub property: String,
    pub class: String,
    pub locus: String,
    pub what: String,
}

pub fn load_known(path: &str) -> Result<Vec<Known>, String> {
    let txt = match std::fs::read_to_string(path) {
        Ok(t) => t,
        Err(_) => return Ok(Vec::new()),
    };
    let j = Json::parse(&txt).map_err(|e| format!("{}: {}", path, e))?;
    let mut out = Vec::new();
    for e in j.as_arr().ok_or("known findings: expected an array")? {
        let sig = e.get("signature").ok_or("known finding without signature")?;
        out.push(Known {
            status: e
                .get("status")
                .and_then(|x| x.as_str())
                .unwrap_or("open")
                .to_string(),
            property: e
                .get("property")
                .and_then(|x| x.as_str())
                .unwrap_or("")
                .to_string(),
            class: sig
                .get("class")
                .and_then(|x| x.as_str())
                .unwrap_or("")
                .to_string(),
            locus: sig
                .get("locus")
                .and_then(|x| x.as_str())
                .unwrap_or("")
                .to_string(),
            what: e
                .get("what")
                .and_then(|x| x.as_str())
                .unwrap_or("")
                .to_string(),
        });
    }
    Ok(out)
}

fn known_match<'a>(known: &'a [Known], prop: &str, v: &Violation) -> Option<&'a Known> {
    known.iter().find(|k| {
        k.status == "open" && k.property == prop && k.class == v.class && k.locus == v.locus
    })
}

// ---------------------------------------------------------------- check

pub struct CheckOpts {
    pub tier: Tier,
    pub seed: u64,
    pub jobs: usize,
    pub budget_s: f64,
    pub verif_dir: String,
    pub runs_override: Option<u64>,
    pub child: bool,
    /// execute exactly this run index (triage after the process died)
    pub only_run: Option<u64>,
    /// file in which every worker records the run index it is about to execute
    pub journal: Option<String>,
    /// with only_run: file receiving every scenario before it executes
    pub dump: Option<String>,
}

pub struct CheckResult {
    pub exit: i32,
    pub summary: Json,
}

struct Found {
    index: u64,
    tape: Vec<u64>,
    v: Violation,
}

fn prop_salt(id: &str) -> u64 {
    let mut h = crate::prng::Hash64::new();
    h.str(id);
    h.get()
}

pub fn run_seed(seed: u64, prop: &str, index: u64) -> u64 {
    mix(&[seed, prop_salt(prop), index])
}

pub fn check(prop: &'static dyn Property, o: &CheckOpts) -> CheckResult {
    let t0 = Instant::now();
    let id = prop.id();
    let known = match load_known(&format!("{}/KNOWN_FINDINGS.json", o.verif_dir)) {
        Ok(k) => k,
        Err(e) => {
            eprintln!("HARNESS-ERROR: {}", e);
            return CheckResult {
                exit: 2,
                summary: Json::Null,
            };
        }
    };
    let mut runs = o.runs_override.unwrap_or_else(|| prop.runs(o.tier));
    let mut first = 0u64;
    if let Some(i) = o.only_run {
        first = i;
        runs = i + 1;
    }
    let journal: Option<std::fs::File> = o.journal.as_ref().and_then(|p| {
        std::fs::OpenOptions::new().create(true).write(true).truncate(true).open(p).ok()
    });
    let journal = &journal;
    let only_run = o.only_run.is_some();
    let dump = &o.dump;
    let next = AtomicU64::new(first);
    let stop_at = AtomicU64::new(u64::MAX);
    let timed_out = AtomicBool::new(false);
    let found: Mutex<Vec<Found>> = Mutex::new(Vec::new());
    let known_hits: Mutex<Vec<(String, u64, Violation)>> = Mutex::new(Vec::new());
    let merged: Mutex<Stats> = Mutex::new(Stats::new());
    let harness_err: Mutex<Option<String>> = Mutex::new(None);
    let deadline = t0 + Duration::from_secs_f64(o.budget_s);

    // heartbeat table for the hang supervisor
    let beats: Vec<Arc<(AtomicU64, Arc<Mutex<Option<Scenario>>>)>> = (0..o.jobs)
        .map(|_| Arc::new((AtomicU64::new(0), Arc::new(Mutex::new(None)))))
        .collect();
    let done = AtomicBool::new(false);

    std::thread::scope(|s| {
        let mut handles = Vec::new();
        for w in 0..o.jobs {
            let next = &next;
            let stop_at = &stop_at;
            let found = &found;
            let known_hits = &known_hits;
            let merged = &merged;
            let known = &known;
            let timed_out = &timed_out;
            let harness_err = &harness_err;
            let beat = beats[w].clone();
            let tier = o.tier;
            let seed = o.seed;
            handles.push(
                std::thread::Builder::new()
                    .stack_size(8 << 20)
                    .spawn_scoped(s, move || {
                        crate::heap::set_worker(w);
                        let mut ctx = Ctx::new(tier);
                        // share the "current scenario" slot with the supervisor
                        ctx.current = beat.1.clone();
                        ctx.dump_path = dump.clone();
                        // one-off deterministic enumeration is done by worker 0
                        if w == 0 && !only_run {
                            ctx.run_index = u64::MAX;
                            let vs = prop.enumerate(&mut ctx);
                            for v in vs {
                                if let Some(k) = known_match(known, id, &v) {
                                    known_hits.lock().unwrap().push((k.what.clone(), 0, v));
                                } else {
                                    found.lock().unwrap().push(Found {
                                        index: 0,
                                        tape: Vec::new(),
                                        v,
                                    });
                                    stop_at.fetch_min(0, Ordering::SeqCst);
                                }
                            }
                        }
                        let mut n_local = 0u64;
                        loop {
                            let i = next.fetch_add(1, Ordering::SeqCst);
                            if i >= runs || i >= stop_at.load(Ordering::SeqCst) {
                                break;
                            }
                            n_local += 1;
                            if n_local % 64 == 0 && Instant::now() > deadline {
                                timed_out.store(true, Ordering::SeqCst);
                                break;
                            }
                            beat.0.store(i + 1, Ordering::Relaxed);
                            if let Some(j) = journal {
                                use std::os::unix::fs::FileExt;
                                let _ = j.write_all_at(&(i + 1).to_le_bytes(), (w * 8) as u64);
                            }
                            ctx.run_index = i;
                            let mut tape = Tape::random(run_seed(seed, id, i));
                            let vs = match crate::env::guarded(|| prop.run(&mut tape, &mut ctx)) {
                                Ok(vs) => vs,
                                Err(p) => {
                                    // a panic outside the guarded calls into lzma-rs is a
                                    // bug of the harness itself
                                    let mut h = harness_err.lock().unwrap();
                                    if h.is_none() {
                                        *h = Some(format!("run {} (seed {}): {}", i, seed, p));
                                    }
                                    stop_at.fetch_min(0, Ordering::SeqCst);
                                    break;
                                }
                            };
                            if !vs.is_empty() {
                                for v in vs {
                                    if let Some(k) = known_match(known, id, &v) {
                                        let mut kh = known_hits.lock().unwrap();
                                        if kh.len() < 10_000 {
                                            kh.push((k.what.clone(), i, v));
                                        }
                                    } else {
                                        found.lock().unwrap().push(Found {
                                            index: i,
                                            tape: tape.recorded(),
                                            v,
                                        });
                                        stop_at.fetch_min(i, Ordering::SeqCst);
                                        break;
                                    }
                                }
                            }
                        }
                        beat.0.store(0, Ordering::Relaxed);
                        merged.lock().unwrap().merge(std::mem::take(&mut ctx.stats));
                    })
                    .expect("spawn worker"),
            );
        }
        // hang supervisor: the only wall-clock reader besides the batch budget
        let sup_beats = beats.clone();
        let done_ref = &done;
        let verif_dir = o.verif_dir.clone();
        s.spawn(move || {
            let mut last: Vec<(u64, Instant)> =
                sup_beats.iter().map(|_| (0, Instant::now())).collect();
            while !done_ref.load(Ordering::SeqCst) {
                std::thread::sleep(Duration::from_millis(100));
                let trapped = crate::heap::TRAP_SIZE.load(Ordering::SeqCst);
                if trapped != 0 {
                    crate::heap::TRAP_ACK.store(1, Ordering::SeqCst);
                    // a worker asked for an absurd single allocation and is parked
                    let w = crate::heap::TRAP_WORKER.load(Ordering::SeqCst);
                    let sc = sup_beats
                        .get(w)
                        .and_then(|b| b.1.lock().ok().and_then(|g| g.clone()));
                    let run = sup_beats.get(w).map(|b| b.0.load(Ordering::Relaxed)).unwrap_or(0);
                    let path = format!(
                        "{}/replays/{}-{}-allocbomb-run{}.json",
                        verif_dir,
                        id,
                        profile(),
                        run.saturating_sub(1)
                    );
                    let _ = std::fs::create_dir_all(format!("{}/replays", verif_dir));
                    let detail = format!(
                        "a single allocation of {} bytes was requested (limit {}); the real allocator would abort the process",
                        trapped,
                        crate::heap::TRAP_LIMIT
                    );
                    let j = Json::obj()
                        .with("format", Json::Int(1))
                        .with("property", Json::str(id))
                        .with("profile", Json::str(profile()))
                        .with("scenario", sc.map(|s| s.to_json(false)).unwrap_or(Json::Null))
                        .with(
                            "violation",
                            Json::obj()
                                .with("class", Json::str("allocation_bomb"))
                                .with("locus", Json::str("single allocation request above 1 GiB"))
                                .with("detail", Json::str(&detail)),
                        );
                    let _ = std::fs::write(&path, j.to_pretty());
                    println!("violation: class=allocation_bomb {}", detail);
                    println!("VIOLATION property={} replay={}", id, path);
                    std::process::exit(1);
                }
                for (w, b) in sup_beats.iter().enumerate() {
                    let cur = b.0.load(Ordering::Relaxed);
                    if cur == 0 || cur != last[w].0 {
                        last[w] = (cur, Instant::now());
                    } else if last[w].1.elapsed() > Duration::from_secs(120) {
                        // a single run has made no progress for two minutes
                        let path = format!("{}/replays/{}-hang-run{}.json", verif_dir, id, cur - 1);
                        let _ = std::fs::create_dir_all(format!("{}/replays", verif_dir));
                        let sc = b.1.lock().ok().and_then(|g| g.clone());
                        let j = Json::obj()
                            .with("format", Json::Int(1))
                            .with("property", Json::str(id))
                            .with("profile", Json::str(profile()))
                            .with(
                                "scenario",
                                sc.map(|s| s.to_json(false)).unwrap_or(Json::Null),
                            )
                            .with(
                                "violation",
                                Json::obj()
                                    .with("class", Json::str("hang"))
                                    .with("locus", Json::str("run"))
                                    .with(
                                        "detail",
                                        Json::str("no progress for 120 s"),
                                    ),
                            )
                            .with("hang_run_index", Json::Int((cur - 1) as i128));
                        let _ = std::fs::write(&path, j.to_pretty());
                        println!("VIOLATION property={} replay={}", id, path);
                        std::process::exit(1);
                    }
                }
            }
        });
        for h in handles {
            let _ = h.join();
        }
        done.store(true, Ordering::SeqCst);
    });

    if let Some(e) = harness_err.into_inner().unwrap() {
        eprintln!("HARNESS-ERROR: panic inside the harness: {}", e);
        return CheckResult {
            exit: 2,
            summary: Json::Null,
        };
    }
    let mut stats = merged.into_inner().unwrap();
    let mut found = found.into_inner().unwrap();
    found.sort_by_key(|f| f.index);
    let known_hits = known_hits.into_inner().unwrap();

    // known findings: one line per listed finding that was observed
    let mut known_lines: Vec<(String, u64)> = Vec::new();
    for (what, _, _) in &known_hits {
        if let Some(e) = known_lines.iter_mut().find(|x| &x.0 == what) {
            e.1 += 1;
        } else {
            known_lines.push((what.clone(), 1));
        }
    }
    for (what, n) in &known_lines {
        println!(
            "KNOWN-FINDING: property={} {} (observed {} time(s) in this run)",
            id, what, n
        );
    }

    let mut exit = 0;
    let mut violation_json = Json::Null;
    let mut replay_path = String::new();
    if let Some(first) = found.into_iter().next() {
        exit = 1;
        // minimise (tape level) unless it came from the enumeration pass
        let (tape, v, shrunk_from) = if first.tape.is_empty() {
            (Vec::new(), first.v, 0)
        } else {
            let n0 = first.tape.len();
            // shrink in a helper thread: a candidate may turn into an allocation
            // bomb, which parks the thread for good — then keep the original
            let (tx, rx) = std::sync::mpsc::channel();
            let (tape0, v0, tier) = (first.tape.clone(), first.v.clone(), o.tier);
            std::thread::Builder::new()
                .stack_size(8 << 20)
                .spawn(move || {
                    let r = shrink(prop, tier, tape0, v0, 20.0);
                    let _ = tx.send(r);
                })
                .expect("spawn shrinker");
            let t_sh = Instant::now();
            let (t, v) = loop {
                match rx.recv_timeout(Duration::from_millis(50)) {
                    Ok(r) => break r,
                    Err(std::sync::mpsc::RecvTimeoutError::Timeout) => {
                        if crate::heap::TRAP_SIZE.load(Ordering::SeqCst) != 0
                            || t_sh.elapsed() > Duration::from_secs(120)
                        {
                            crate::heap::TRAP_ACK.store(1, Ordering::SeqCst);
                            break (first.tape, first.v);
                        }
                    }
                    Err(_) => break (first.tape, first.v),
                }
            };
            (t, v, n0)
        };
        let _ = std::fs::create_dir_all(format!("{}/replays", o.verif_dir));
        replay_path = format!(
            "{}/replays/{}-{}-{}-{}.json",
            o.verif_dir, id, profile(), o.seed, first.index
        );
        let j = Json::obj()
            .with("format", Json::Int(1))
            .with("property", Json::str(id))
            .with("profile", Json::str(profile()))
            .with(
                "found_by",
                Json::obj()
                    .with("seed", Json::Int(o.seed as i128))
                    .with("run", Json::Int(first.index as i128))
                    .with("tier", Json::str(o.tier.name())),
            )
            .with("scenario", v.scenario.to_json(false))
            .with("violation", v.to_json())
            .with(
                "minimised",
                Json::obj()
                    .with("tape_len_before", Json::Int(shrunk_from as i128))
                    .with("tape_len_after", Json::Int(tape.len() as i128)),
            )
            .with("tape", Json::uints(&tape));
        if let Err(e) = std::fs::write(&replay_path, j.to_pretty()) {
            eprintln!("HARNESS-ERROR: cannot write {}: {}", replay_path, e);
            return CheckResult {
                exit: 2,
                summary: Json::Null,
            };
        }
        // re-execute the file in a fresh process: it must fail the same way
        let ok = match std::env::current_exe() {
            Ok(exe) => std::process::Command::new(exe)
                .arg("replay")
                .arg(&replay_path)
                .arg("--quiet")
                .status()
                .map(|s| s.code() == Some(1))
                .unwrap_or(false),
            Err(_) => false,
        };
        if !ok {
            eprintln!(
                "HARNESS-ERROR: replay of {} did not reproduce class={} locus={}",
                replay_path, v.class, v.locus
            );
            return CheckResult {
                exit: 2,
                summary: Json::Null,
            };
        }
        println!(
            "violation: class={} locus={} detail={}",
            v.class, v.locus, v.detail
        );
        println!("VIOLATION property={} replay={}", id, replay_path);
        violation_json = v.to_json();
    }

    let wall = t0.elapsed().as_secs_f64();
    let evals = stats.evaluations;
    // order-independent fingerprint of everything this run measured: equal
    // fingerprints <=> same cases, same event logs, same counters
    let fingerprint = {
        let mut x = 0u64;
        let mut sum = 0u64;
        for d in &stats.distinct {
            x ^= *d;
            sum = sum.wrapping_add(d.wrapping_mul(0x9E37_79B9_7F4A_7C15));
        }
        let mut h = crate::prng::Hash64::new();
        h.u(x);
        h.u(sum);
        h.u(stats.evaluations);
        h.u(stats.nontrivial);
        h.u(stats.events);
        for (k, v) in &stats.counters {
            h.str(k);
            h.u(*v);
        }
        for (k, v) in &stats.maxima {
            h.str(k);
            h.u(*v);
        }
        h.get()
    };
    let samples: Vec<Json> = stats
        .samples
        .iter()
        .map(|(i, s)| s.to_json(true).with("run_index", Json::Int(*i as i128)))
        .collect();
    let mut obs = Json::obj();
    for (k, v) in &stats.observations {
        obs.set(k, Json::Int(*v as i128));
    }
    let summary = Json::obj()
        .with("profile", Json::str(profile()))
        .with("seeded_runs", Json::Int(next.load(Ordering::SeqCst).min(runs) as i128))
        .with("seeded_runs_planned", Json::Int(runs as i128))
        .with("stopped_by_time_budget", Json::Bool(timed_out.load(Ordering::SeqCst)))
        .with("evaluations", Json::Int(evals as i128))
        .with("nontrivial", Json::Int(stats.nontrivial as i128))
        .with("distinct_nontrivial", Json::Int(stats.distinct.len() as i128))
        .with(
            "distinct_counting",
            Json::str(&if stats.sample_shift == 0 {
                "exact: every non-trivial case id was kept".to_string()
            } else {
                format!(
                    "lower bound: the run was long enough that only case ids in one hash class out of {} were kept (exact count within that class; estimated total {})",
                    1u64 << stats.sample_shift,
                    (stats.distinct.len() as u64) << stats.sample_shift
                )
            }),
        )
        .with("logical_events", Json::Int(stats.events as i128))
        .with(
            "runs_per_hour",
            Json::Float((evals as f64 / wall.max(1e-9) * 3600.0).round()),
        )
        .with("faults_configured", stats.group("fault.configured"))
        .with("faults_fired", stats.group("fault.fired"))
        .with("probes", stats.group("probe"))
        .with("arms", stats.group("arm"))
        .with("verdicts", stats.group("verdict"))
        .with("maxima", stats.maxima_json())
        .with("observations", obs)
        .with("samples", Json::Arr(samples))
        .with("wall_s", Json::Float(wall))
        .with("fingerprint", Json::str(&format!("{:016x}", fingerprint)))
        .with("violation", violation_json)
        .with("replay", Json::str(&replay_path))
        .with(
            "known_findings_observed",
            Json::Arr(
                known_lines
                    .iter()
                    .map(|(w, n)| {
                        Json::obj()
                            .with("what", Json::str(w))
                            .with("times", Json::Int(*n as i128))
                    })
                    .collect(),
            ),
        );
    stats.distinct.clear();
    CheckResult { exit, summary }
}

// ---------------------------------------------------------------- shrinking

fn same_sig(a: &Violation, b: &Violation) -> bool {
    a.class == b.class && a.locus == b.locus
}

fn try_tape(
    prop: &dyn Property,
    tier: Tier,
    tape: &[u64],
    target: &Violation,
) -> Option<(Vec<u64>, Violation)> {
    let mut ctx = Ctx::new(tier);
    ctx.quiet = true;
    let mut t = Tape::replay(tape.to_vec());
    let vs = prop.run(&mut t, &mut ctx);
    for v in vs {
        if same_sig(&v, target) {
            let mut used = tape.to_vec();
            used.truncate(t.used());
            return Some((used, v));
        }
    }
    None
}

/// Tape-level minimisation: delete spans, zero spans, lower values; a step is
/// kept only while the same violation class and locus persists.
pub fn shrink(
    prop: &dyn Property,
    tier: Tier,
    tape: Vec<u64>,
    v: Violation,
    budget_s: f64,
) -> (Vec<u64>, Violation) {
    let t0 = Instant::now();
    let mut best = tape;
    let mut best_v = v;
    // normalise: replaying the recorded tape must reproduce (determinism)
    match try_tape(prop, tier, &best, &best_v) {
        Some((t, vv)) => {
            best = t;
            best_v = vv;
        }
        None => return (best, best_v),
    }
    let over = |t0: &Instant| t0.elapsed().as_secs_f64() > budget_s;
    let mut progress = true;
    while progress && !over(&t0) {
        progress = false;
        // delete spans, largest first, from the end
        let mut span = best.len().max(1) / 2;
        while span >= 1 && !over(&t0) {
            let mut start = best.len().saturating_sub(span);
            loop {
                if start + span <= best.len() {
                    let mut cand = best.clone();
                    cand.drain(start..start + span);
                    if let Some((t, vv)) = try_tape(prop, tier, &cand, &best_v) {
                        if t.len() < best.len() {
                            best = t;
                            best_v = vv;
                            progress = true;
                        }
                    }
                }
                if start == 0 || over(&t0) {
                    break;
                }
                start = start.saturating_sub(span);
            }
            span /= 2;
        }
        // zero spans
        let mut span = (best.len() / 2).max(1);
        while span >= 1 && !over(&t0) {
            let mut start = 0;
            while start < best.len() && !over(&t0) {
                let end = (start + span).min(best.len());
                if best[start..end].iter().any(|x| *x != 0) {
                    let mut cand = best.clone();
                    for x in &mut cand[start..end] {
                        *x = 0;
                    }
                    if let Some((t, vv)) = try_tape(prop, tier, &cand, &best_v) {
                        best = t;
                        best_v = vv;
                        progress = true;
                    }
                }
                start += span;
            }
            span /= 2;
        }
        // lower single values
        let mut i = 0;
        while i < best.len() && !over(&t0) {
            let cur = best[i];
            if cur > 0 {
                for cand_v in [cur / 2, cur - 1] {
                    if cand_v >= best.get(i).copied().unwrap_or(0) {
                        continue;
                    }
                    let mut cand = best.clone();
                    cand[i] = cand_v;
                    if let Some((t, vv)) = try_tape(prop, tier, &cand, &best_v) {
                        best = t;
                        best_v = vv;
                        progress = true;
                        if i >= best.len() {
                            break;
                        }
                    }
                }
            }
            i += 1;
        }
    }
    (best, best_v)
}

// ---------------------------------------------------------------- replay

/// Returns exit code: 1 if the replay reproduces a violation with the recorded
/// signature, 0 if the scenario passes, 2 on a malformed file.
pub fn replay_file(props: &[&'static dyn Property], path: &str, quiet: bool) -> i32 {
    let txt = match std::fs::read_to_string(path) {
        Ok(t) => t,
        Err(e) => {
            eprintln!("HARNESS-ERROR: cannot read {}: {}", path, e);
            return 2;
        }
    };
    let j = match Json::parse(&txt) {
        Ok(j) => j,
        Err(e) => {
            eprintln!("HARNESS-ERROR: {}: {}", path, e);
            return 2;
        }
    };
    let pid = j.get("property").and_then(|x| x.as_str()).unwrap_or("");
    let prop = match props.iter().find(|p| p.id() == pid) {
        Some(p) => *p,
        None => {
            eprintln!("HARNESS-ERROR: unknown property {:?} in {}", pid, path);
            return 2;
        }
    };
    if let Some(p) = j.get("profile").and_then(|x| x.as_str()) {
        if p != profile() && !quiet {
            eprintln!(
                "note: file was recorded under the {} profile, this binary is {}",
                p, profile()
            );
        }
    }
    let sc = match j.get("scenario").map(Scenario::from_json) {
        Some(Ok(s)) => s,
        Some(Err(e)) => {
            eprintln!("HARNESS-ERROR: {}: {}", path, e);
            return 2;
        }
        None => {
            eprintln!("HARNESS-ERROR: {}: no scenario", path);
            return 2;
        }
    };
    let want_class = j
        .get("violation")
        .and_then(|v| v.get("class"))
        .and_then(|x| x.as_str())
        .unwrap_or("");
    let want_locus = j
        .get("violation")
        .and_then(|v| v.get("locus"))
        .and_then(|x| x.as_str())
        .unwrap_or("");
    // a case that kills the process is re-executed in a child process
    if want_class == "process_death" && std::env::var("LZSIM_REPLAY_INNER").is_err() {
        let exe = std::env::current_exe()
            .map(|e| e.to_string_lossy().replace(" (deleted)", ""))
            .unwrap_or_else(|_| "lzsim".into());
        let st = std::process::Command::new(&exe)
            .args(["replay", path, "--quiet"])
            .env("LZSIM_REPLAY_INNER", "1")
            .status();
        return match st.map(|s| s.code()) {
            Ok(Some(0)) | Ok(Some(1)) => {
                if !quiet {
                    println!("replay: property={} scenario passes (the process survives)", pid);
                }
                0
            }
            Ok(Some(2)) | Err(_) => {
                eprintln!("HARNESS-ERROR: replay child failed");
                2
            }
            Ok(_) => {
                if !quiet {
                    println!("replay: property={} class=process_death: the process executing the case died again", pid);
                    println!("VIOLATION property={} replay={}", pid, path);
                }
                1
            }
        };
    }
    // run in a thread so that an allocation bomb (which parks the thread) is seen
    let (tx, rx) = std::sync::mpsc::channel();
    let sc2 = sc.clone();
    std::thread::Builder::new()
        .stack_size(8 << 20)
        .spawn(move || {
            let mut ctx = Ctx::new(Tier::Quick);
            ctx.quiet = true;
            let vs = prop.replay(&sc2, &mut ctx);
            let _ = tx.send(vs);
        })
        .expect("spawn replay thread");
    let vs = loop {
        match rx.recv_timeout(Duration::from_millis(50)) {
            Ok(vs) => break vs,
            Err(std::sync::mpsc::RecvTimeoutError::Timeout) => {
                let trapped = crate::heap::TRAP_SIZE.load(Ordering::SeqCst);
                if trapped != 0 {
                    crate::heap::TRAP_ACK.store(1, Ordering::SeqCst);
                    break vec![Violation::new(
                        "allocation_bomb",
                        "single allocation request above 1 GiB",
                        format!("a single allocation of {} bytes was requested", trapped),
                        &sc,
                    )];
                }
            }
            Err(_) => {
                eprintln!("HARNESS-ERROR: replay thread died");
                return 2;
            }
        }
    };
    let mut code = 0;
    for v in &vs {
        let same = (want_class.is_empty() || v.class == want_class)
            && (want_locus.is_empty() || v.locus == want_locus);
        if !quiet {
            println!(
                "replay: property={} class={} locus={} detail={}{}",
                pid,
                v.class,
                v.locus,
                v.detail,
                if same { "" } else { "  (different signature than recorded)" }
            );
        }
        if same {
            code = 1;
        }
    }
    if vs.is_empty() && !quiet {
        println!("replay: property={} scenario passes", pid);
    }
    if code == 1 && !quiet {
        println!("VIOLATION property={} replay={}", pid, path);
    }
    code
}

// ---------------------------------------------------------------- simple properties

/// A property whose every seeded run is "generate one scenario, execute it,
/// judge it". Most properties have this shape.
pub struct SimpleProp {
    pub id: &'static str,
    pub level: &'static str,
    pub rule: &'static str,
    pub runs_quick: u64,
    pub runs_thorough: u64,
    pub both_profiles: bool,
    pub assumptions: &'static [&'static str],
    pub gen: fn(&mut Tape, Tier) -> Scenario,
    pub exec: fn(&Scenario, &mut Ctx) -> Vec<Violation>,
    pub enumerate: Option<fn(&mut Ctx) -> Vec<Violation>>,
}

impl Property for SimpleProp {
    fn id(&self) -> &'static str {
        self.id
    }
    fn level(&self) -> &'static str {
        self.level
    }
    fn rule(&self) -> &'static str {
        self.rule
    }
    fn runs(&self, tier: Tier) -> u64 {
        match tier {
            Tier::Quick => self.runs_quick,
            Tier::Thorough => self.runs_thorough,
        }
    }
    fn both_profiles(&self) -> bool {
        self.both_profiles
    }
    fn assumptions(&self) -> Vec<&'static str> {
        self.assumptions.to_vec()
    }
    fn run(&self, tape: &mut Tape, ctx: &mut Ctx) -> Vec<Violation> {
        let sc = (self.gen)(tape, ctx.tier);
        ctx.begin(&sc);
        (self.exec)(&sc, ctx)
    }
    fn replay(&self, sc: &Scenario, ctx: &mut Ctx) -> Vec<Violation> {
        ctx.begin(sc);
        (self.exec)(sc, ctx)
    }
    fn enumerate(&self, ctx: &mut Ctx) -> Vec<Violation> {
        match self.enumerate {
            Some(f) => f(ctx),
            None => Vec::new(),
        }
    }
}
