//! C01 — LZMA decoding is exact for every well-formed stream (control arm:
//! no fault; knobs = dictionary size, lc/lp/pb, termination, benign I/O scripts).

use super::common::*;
use crate::drive::*;
use crate::env::*;
use crate::gen;
use crate::prng::Tape;
use crate::runner::{Ctx, SimpleProp, Tier};
use crate::scenario::{Scenario, Violation};
use std::rc::Rc;

pub fn store_prog_probes(sc: &mut Scenario, b: &LzmaBuilt) {
    let ps = &b.ps;
    sc.set_l(
        "probes",
        vec![
            ps.overlap_copies as u64,
            ps.src_wrap_copies as u64,
            ps.dst_wrap_copies as u64,
            if b.dict > 0 { b.expect.len() as u64 / b.dict } else { 0 },
            b.max_symbol_bytes() as u64,
            ps.states as u64,
            ps.len_273 as u64,
            ps.dist_eq_dict as u64,
            ps.dist_eq_avail as u64,
            ps.kinds[1] as u64,
            ps.kinds[2] as u64,
            ps.kinds[3] as u64,
            (b.props.lc + b.props.lp > 4) as u64,
            b.marker as u64,
        ],
    );
}

pub fn count_prog_probes(sc: &Scenario, ctx: &mut Ctx) {
    let p = sc.l("probes");
    if p.len() < 14 {
        return;
    }
    let s = &mut ctx.stats;
    if p[0] > 0 {
        s.hit("probe.program_has_overlapping_copy");
    }
    if p[1] > 0 {
        s.hit("probe.copy_source_straddles_wrap");
    }
    if p[2] > 0 {
        s.hit("probe.copy_destination_reaches_wrap");
    }
    if p[3] >= 1 {
        s.hit("probe.output_at_least_one_lap");
    }
    if p[3] >= 2 {
        s.hit("probe.output_two_or_more_laps");
    }
    s.max("max_symbol_input_bytes", p[4]);
    if p[4] >= 12 {
        s.hit("probe.symbol_needing_12_or_more_input_bytes");
    }
    if p[5].count_ones() >= 10 {
        s.hit("probe.ten_or_more_automaton_states_visited");
    }
    if p[6] > 0 {
        s.hit("probe.length_273");
    }
    if p[7] > 0 {
        s.hit("probe.distance_equals_dictionary_size");
    }
    if p[8] > 0 {
        s.hit("probe.distance_equals_everything_produced");
    }
    if p[9] > 0 {
        s.hit("probe.has_match");
    }
    if p[10] > 0 {
        s.hit("probe.has_shortrep");
    }
    if p[11] > 0 {
        s.hit("probe.has_rep");
    }
    if p[12] > 0 {
        s.hit("probe.lc_plus_lp_above_4");
    }
    if p[13] > 0 {
        s.hit("probe.end_marker");
    } else {
        s.hit("probe.declared_size");
    }
}

/// Large dictionaries and multi-megabyte outputs: the stream is described by a
/// few numbers and rebuilt (deterministically) when executed, so that replay
/// files stay small.
fn gen_large(t: &mut Tape, tier: Tier) -> Scenario {
    let mut sc = Scenario::new("c01");
    sc.set_i("large", 1);
    let props = gen::draw_props(t, false);
    sc.set_l("props", vec![props.lc as u64, props.lp as u64, props.pb as u64]);
    let base: u64 = if tier == Tier::Thorough {
        [1u64 << 16, 1 << 20, 3 << 19, 1 << 22, 1 << 24][t.below(5) as usize]
    } else {
        [1u64 << 16, 1 << 18, 1 << 20, 3 << 19][t.below(4) as usize]
    };
    let dict = (base as i64 + [0i64, 0, -1, 1, 4095][t.below(5) as usize]) as u64;
    sc.set_i("dict", dict);
    let laps = t.range(1, 3);
    let total = (dict * laps) as i64 + [0i64, -1, 1, 2, 273, -273][t.below(6) as usize] + if t.below(2) == 0 { t.below(70_000) as i64 } else { 0 };
    sc.set_i("total", total.max(1) as u64);
    sc.set_i("prefix", t.range(1, 300));
    sc.set_i("rng", t.u64());
    sc.set_i("marker", t.below(2));
    if t.below(3) == 0 {
        // instead: one of the embedded programs that put the range register exactly on
        // the refill boundary right before a direct bit (1 MiB of history, far matches)
        sc.set_i("dbw", 1 + t.below(gen::DIRECT_BIT_WITNESSES.len() as u64));
        sc.set_i("dict", crate::rcsearch::DB_DICT);
        sc.set_l("props", vec![3, 0, 2]);
    }
    sc.set_i("rk", [RK_SLICE, RK_SIM, RK_BUFREADER][t.below(3) as usize]);
    sc.set_i("bufcap", t.range(1, 70_000));
    sc.set_l("src_script", gen::draw_script(t));
    sc.set_l("sink_script", gen::draw_script(t));
    let mut opts = OptSpec::default();
    opts.mode = t.below(3);
    opts.store(&mut sc);
    sc.note = format!("large: lc={} lp={} pb={} dict={} output={} marker={}", props.lc, props.lp, props.pb, dict, total, sc.i("marker"));
    if sc.has_i("dbw") {
        let w = gen::DIRECT_BIT_WITNESSES[(sc.i("dbw") - 1) as usize];
        sc.note = format!("range register exactly {:#010x} before a direct bit (embedded program: tail seed {:#x}, {} symbols after 1 MiB of history); marker={}", crate::refmodel::codec::DIRECT_BIT_WATCH[w.2 as usize], w.0, w.1, sc.i("marker"));
    }
    sc
}

fn exec_large(sc: &Scenario, ctx: &mut Ctx) -> Vec<Violation> {
    let marker = sc.i("marker") == 1;
    let (props, payload, expect, far) = if sc.has_i("dbw") {
        let w = gen::DIRECT_BIT_WITNESSES[((sc.i("dbw") - 1) as usize).min(gen::DIRECT_BIT_WITNESSES.len() - 1)];
        let (p, _d, pl, ex, mask) = crate::rcsearch::build_db_witness(w.0, w.1, marker);
        if mask & (1 << w.2) != 0 {
            ctx.stats.hit("probe.range_register_on_the_refill_boundary_before_a_direct_bit");
        }
        (p, pl, ex, 0)
    } else {
        build_large_stream(sc)
    };
    let dict = sc.i("dict");
    let mut opts = OptSpec::load(sc);
    let size = if marker { None } else { Some(expect.len() as u64) };
    let mut input = match opts.mode {
        0 => crate::refmodel::container::lzma_header(props, dict as u32, Some(size.unwrap_or(u64::MAX))),
        1 => {
            opts.provided = size;
            crate::refmodel::container::lzma_header(props, dict as u32, Some(sc.i("rng")))
        }
        _ => {
            opts.provided = size;
            crate::refmodel::container::lzma_header(props, dict as u32, None)
        }
    };
    input.extend_from_slice(&payload);
    let n = expect.len();
    let (mut sink, st) = SimSink::new(Some(Rc::new(expect)), sc.l("sink_script"), Faults::none(), Faults::none());
    let (v, ro) = run_with_reader(
        EP_LZMA,
        &input,
        sc.i("rk"),
        sc.l("src_script"),
        Faults::none(),
        sc.i("bufcap") as usize,
        &mut sink,
        &opts,
        &RawSpec::default(),
        0,
        0,
    );
    let s = st.borrow();
    ctx.stats.hit("arm.large_dictionary_multi_megabyte_output");
    ctx.stats.max("max_output_bytes_of_one_decode", n as u64);
    ctx.stats.max("max_dictionary_with_a_wrapped_window", if n as u64 > dict { dict } else { 0 });
    ctx.stats.add("probe.large_far_matches", far);
    ctx.stats.eval(sc.hash() ^ ro.log, true, ro.calls + s.writes);
    if let Verdict::Panic(p) = &v {
        return vec![Violation::new("panic", &panic_locus(p), p.clone(), sc)];
    }
    if let Some(off) = s.first_bad {
        return vec![Violation::new("wrong_output", "lzma_decompress (large)", format!("output byte {} of {} differs from the bytes the format defines", off, n), sc)];
    }
    if !v.is_ok() {
        return vec![Violation::new("rejects_valid_stream", "lzma_decompress (large)", format!("well-formed stream refused: {}", v.short()), sc)];
    }
    if s.accepted.len() != n {
        return vec![Violation::new("wrong_output", "lzma_decompress (large)", format!("delivered {} bytes, the format defines {}", s.accepted.len(), n), sc)];
    }
    Vec::new()
}

fn gen(t: &mut Tape, tier: Tier) -> Scenario {
    if t.below(if tier == Tier::Thorough { 4000 } else { 1500 }) == 0 {
        return gen_large(t, tier);
    }
    let mut sc = Scenario::new("c01");
    let max_target = if tier == Tier::Thorough { 262_144 } else { 40_000 };
    let raw = t.below(4) == 0;
    let mut opts = OptSpec::default();
    if raw {
        let dict = match t.below(4) {
            0 => t.range(1, 8),
            1 => t.range(9, 64),
            2 => t.range(65, 4095),
            _ => [1u64, 2, 3, 16, 64][t.below(5) as usize],
        };
        let b = gen_lzma_raw_dict(t, dict, 0, max_target);
        sc.set_i("ep", EP_RAW_LZMA);
        RawSpec {
            lc: b.props.lc,
            lp: b.props.lp,
            pb: b.props.pb,
            dict: dict as u32,
            size: if b.marker { None } else { Some(b.expect.len() as u64) },
            pre: None,
        }
        .store(&mut sc);
        sc.note = format!(
            "raw lc={} lp={} pb={} dict={} marker={} symbols={} out={}",
            b.props.lc, b.props.lp, b.props.pb, dict, b.marker, b.ps.symbols, b.expect.len()
        );
        store_prog_probes(&mut sc, &b);
        sc.set_b("input", b.payload);
        sc.set_b("expect", b.expect);
    } else {
        let b = gen_lzma(t, 0, max_target);
        sc.set_i("ep", EP_LZMA);
        opts.mode = t.below(3);
        let size = if b.marker { None } else { Some(b.expect.len() as u64) };
        let input = match opts.mode {
            0 => b.std_file(),
            1 => {
                opts.provided = size;
                b.file(Some(t.u64()))
            }
            _ => {
                opts.provided = size;
                b.file(None)
            }
        };
        // metamorphic partner: another declared dictionary size that still
        // covers every distance used
        if t.below(2) == 1 {
            let need = b.ps.max_dist.max(1);
            let alt: u64 = match t.below(5) {
                0 => 0xFFFF_FFFF,
                1 => need.max(4096),
                2 => (need.max(4096) + t.below(5000)).min(0xFFFF_FFFF),
                3 => {
                    if need <= 4096 {
                        t.below(4096)
                    } else {
                        need
                    }
                }
                _ => 0x0080_0000u64.max(need),
            };
            sc.set_i("alt_dict", alt);
        }
        sc.note = format!(
            "lc={} lp={} pb={} dict_hdr={} marker={} symbols={} out={} max_dist={}",
            b.props.lc, b.props.lp, b.props.pb, b.dict_hdr, b.marker, b.ps.symbols, b.expect.len(), b.ps.max_dist
        );
        store_prog_probes(&mut sc, &b);
        sc.set_b("input", input);
        sc.set_b("expect", b.expect);
    }
    opts.wrapper = t.below(2) == 1;
    opts.store(&mut sc);
    sc.set_i("rk", [RK_SIM, RK_SLICE, RK_CURSOR, RK_BUFREADER][t.below(4) as usize]);
    sc.set_i("bufcap", gen::draw_bufcap(t, 300));
    sc.set_l("src_script", gen::draw_script(t));
    sc.set_l("sink_script", gen::draw_script(t));
    sc
}

fn decode_once(sc: &Scenario, input: &[u8]) -> (Verdict, Vec<u8>, Option<usize>, u64, u64) {
    let opts = OptSpec::load(sc);
    let raw = RawSpec::load(sc);
    let (mut sink, st) = SimSink::new(
        Some(Rc::new(sc.b("expect").to_vec())),
        sc.l("sink_script"),
        Faults::none(),
        Faults::none(),
    );
    let (v, ro) = run_with_reader(
        sc.i("ep"),
        input,
        sc.i("rk"),
        sc.l("src_script"),
        Faults::none(),
        sc.i("bufcap") as usize,
        &mut sink,
        &opts,
        &raw,
        0,
        0,
    );
    let s = st.borrow();
    (
        v,
        s.accepted.clone(),
        s.first_bad,
        ro.calls + s.writes + s.flushes,
        ro.log ^ s.log.rotate_left(13),
    )
}

fn judge(sc: &Scenario, what: &str, v: &Verdict, got: &[u8], first_bad: Option<usize>) -> Option<Violation> {
    let exp = sc.b("expect");
    if let Verdict::Panic(p) = v {
        return Some(Violation::new("panic", &panic_locus(p), p.clone(), sc));
    }
    if let Some(off) = first_bad {
        return Some(Violation::new(
            "wrong_output",
            what,
            format!("output byte {} differs from the bytes the format defines (expected {} bytes)", off, exp.len()),
            sc,
        ));
    }
    if !v.is_ok() {
        return Some(Violation::new(
            "rejects_valid_stream",
            what,
            format!("well-formed stream refused: {}", v.short()),
            sc,
        ));
    }
    if got.len() != exp.len() {
        return Some(Violation::new(
            "wrong_output",
            what,
            format!("delivered {} bytes, the format defines {}", got.len(), exp.len()),
            sc,
        ));
    }
    None
}

fn exec(sc: &Scenario, ctx: &mut Ctx) -> Vec<Violation> {
    if sc.i("large") == 1 {
        return exec_large(sc, ctx);
    }
    let (v, got, bad, events, log) = decode_once(sc, sc.b("input"));
    count_prog_probes(sc, ctx);
    if sc.i("ep") == EP_RAW_LZMA {
        ctx.stats.hit("arm.raw_decoder_small_dictionary");
    } else {
        ctx.stats.hit("arm.lzma_decompress_with_options");
    }
    let hdr = sc.b("input");
    if sc.i("ep") == EP_LZMA && hdr.len() >= 5 {
        let d = u32::from_le_bytes([hdr[1], hdr[2], hdr[3], hdr[4]]);
        if d < 4096 {
            ctx.stats.hit("probe.header_dictionary_below_4096");
        }
    }
    ctx.stats.eval(sc.hash() ^ log, !sc.b("expect").is_empty(), events);
    if let Some(v) = judge(sc, ep_name(sc.i("ep")), &v, &got, bad) {
        return vec![v];
    }
    if sc.has_i("alt_dict") {
        let mut input = sc.b("input").to_vec();
        input[1..5].copy_from_slice(&(sc.i("alt_dict") as u32).to_le_bytes());
        let (v2, got2, bad2, events2, log2) = decode_once(sc, &input);
        ctx.stats.hit("arm.metamorphic_second_dictionary_size");
        ctx.stats.eval(sc.hash() ^ log2 ^ 0xA17, !sc.b("expect").is_empty(), events2);
        if let Some(mut v) = judge(sc, "same program under another declared dictionary size", &v2, &got2, bad2) {
            v.detail = format!("with dictionary header {}: {}", sc.i("alt_dict"), v.detail);
            return vec![v];
        }
    }
    Vec::new()
}

pub static C01: SimpleProp = SimpleProp {
    id: "C01",
    level: "exploration",
    rule: "one evaluation = one decode of a reference-encoded symbol program (random lc/lp/pb over all 225 settings, dictionary header values incl. <4096, tiny raw dictionaries 1..4095, both terminations, all three header options, benign short reads/writes through 4 reader kinds; now and then a multi-megabyte stream over a large dictionary, a third of those being embedded programs that put the range register exactly on 2^25-2, 2^25-1, 2^25 or 2^25+1 right before a direct bit) compared online with the LZ model; plus a second decode under another declared dictionary size; distinct = distinct (scenario, event log) hash; non-trivial = expected output non-empty",
    runs_quick: 200_000,
    runs_thorough: 24_000_000,
    both_profiles: false,
    assumptions: &[
        "the reference encoder/LZ model define 'the bytes the format defines'; they are cross-checked against liblzma (lc+lp<=4) and against the reference decoder (all 225 settings) before every run",
        "pure property: no fault or schedule decides it; this is the simulator's fault-free control arm, sampling only",
        "outputs up to 256 KiB (thorough) / 40 KB (quick) for the random programs; the 'large' arm (1 run in 1500 / 4000) decodes match-heavy streams over dictionaries of 64 KiB - 1.5 MiB (16 MiB thorough) for 1-3 laps, up to ~50 MB of output",
    ],
    gen,
    exec,
    enumerate: None,
};
