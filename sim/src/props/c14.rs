//! C14 — a reset raw decoder is indistinguishable from a new one.

use super::c13::mutate;
use super::common::*;
use crate::drive::*;
use crate::env::guarded;
use crate::prng::Tape;
use crate::refmodel::codec::RefEnc;
use crate::runner::{Ctx, SimpleProp, Tier};
use crate::scenario::{Scenario, Violation};
use crate::gen;
use lzma_rs::decompress::raw::{Lzma2Decoder, LzmaDecoder, LzmaParams, LzmaProperties};

const OP_DECOMP: u64 = 0;
const OP_RESET_NONE: u64 = 1;
const OP_RESET_SOME_NONE: u64 = 2;
const OP_RESET_SOME_SIZE: u64 = 3;
/// decompress stream (arg & 0xFF) with the source failing at refill (arg >> 8)
const OP_DECOMP_SRC_FAULT: u64 = 4;
/// (arg >> 8) times: reset (re-specifying the size stream (arg & 0xFF) needs), decompress it
const OP_CYCLE: u64 = 5;
/// decompress stream (arg & 0xFF) into a sink that fails: ((arg >> 8) & 0xFF) = k-th write
/// call fails (0 = none), bit 16 = the first flush fails
const OP_DECOMP_SINK_FAULT: u64 = 6;

fn gen(t: &mut Tape, tier: Tier) -> Scenario {
    let mut sc = Scenario::new("c14");
    let lzma2 = t.below(3) == 0;
    sc.set_i("lzma2", lzma2 as u64);
    // many reuse cycles: A, then k x (reset, B), reset, A - anything that survives a
    // reset and only shows after a particular number of cycles
    let many = t.below(24) == 0;
    let nstreams = if many { 2 } else { t.range(1, 4) as usize };
    let mut sizes = Vec::new();
    let mut markers = Vec::new();
    let mut notes = Vec::new();
    if lzma2 {
        for i in 0..nstreams {
            let strict = t.below(5) != 0;
            let b = gen_lzma2(t, if many { 200 } else { 1500 }, strict);
            let mut bytes = b.bytes;
            let m = if t.below(3) == 0 { mutate(t, &mut bytes) } else { "none" };
            notes.push(format!("s{}: {}[{}]", i, b.note, m));
            sizes.push(b.expect.len() as u64);
            sc.set_b(&format!("s{}", i), bytes);
        }
    } else {
        let mut props = gen::draw_props(t, false);
        if many {
            // the tables are refilled on every cycle: keep them small
            props.lc = props.lc.min(3);
            props.lp = props.lp.min(1);
        }
        let dict = [1u64, 3, 16, 64, 4096, 1 << 16][t.below(6) as usize];
        sc.set_i("raw_lc", props.lc as u64);
        sc.set_i("raw_lp", props.lp as u64);
        sc.set_i("raw_pb", props.pb as u64);
        sc.set_i("raw_dict", dict);
        let mut cfg = gen::draw_cfg(t);
        for i in 0..nstreams {
            let mut enc = RefEnc::new(props, dict);
            if many {
                // different streams touch different parts of the model
                cfg = gen::draw_cfg(t);
            }
            let target = match if many { 2 } else { t.below(3) } {
                0 => t.range(0, 20),
                1 => dict.min(3000) * t.range(1, 3) + t.below(50),
                _ => t.range(1, 600),
            };
            gen::gen_program(t, &cfg, &mut enc, target, 5000, &mut gen::ProgStats::default());
            let marker = t.below(2) == 1;
            if marker {
                enc.encode_end_marker();
            }
            let mut bytes = enc.finish_segment();
            let m = if !many && t.below(3) == 0 { mutate(t, &mut bytes) } else { "none" };
            markers.push(marker as u64);
            notes.push(format!("s{}: out={} marker={} [{}]", i, enc.model.out.len(), marker, m));
            sizes.push(enc.model.out.len() as u64);
            sc.set_b(&format!("s{}", i), bytes);
        }
        match t.below(3) {
            0 => {}
            1 if t.below(4) == 0 => {
                sc.set_i("init_size", [u64::MAX, 0, 1 << 32][t.below(3) as usize]);
            }
            _ => {
                sc.set_i("init_size", sizes[0]);
            }
        }
    }
    if !lzma2 && t.below(3) == 0 {
        let total: u64 = sizes.iter().sum();
        sc.set_i("memlimit", match t.below(5) {
            0 => 1 << 30,
            1 => sc.i("raw_dict"),
            2 => total.max(1),
            3 => t.range(0, 4096),
            _ => sizes[0],
        });
    }
    sc.set_i("nstreams", nstreams as u64);
    if !many && t.below(3) == 0 {
        // every plain decompress of this history reads through refills of a few bytes
        sc.set_l("rd_script", vec![[1u64, 2, 3, 7, 16, 64][t.below(6) as usize]]);
    }
    sc.set_l("sizes", sizes.clone());
    sc.set_l("markers", markers);
    let mut ops = Vec::new();
    if many {
        let k = match t.below(8) {
            0 | 1 => 255,
            2 => 256,
            3 => 254 + t.below(5),
            4 => [127u64, 128, 129, 511, 512, 513][t.below(6) as usize],
            5 => t.range(2, 300),
            6 => {
                if tier == Tier::Thorough && t.below(8) == 0 {
                    [65535u64, 65536, 65537][t.below(3) as usize]
                } else {
                    [1023u64, 1024, 1025][t.below(3) as usize]
                }
            }
            _ => t.range(250, 260),
        };
        ops.extend_from_slice(&[OP_CYCLE, (1 << 8) | 0, OP_CYCLE, (k << 8) | 1, OP_CYCLE, (1 << 8) | 0]);
        if t.below(2) == 0 {
            ops.extend_from_slice(&[OP_CYCLE, (k << 8) | 0, OP_CYCLE, (1 << 8) | 1]);
        }
        sc.note = format!("{}; many cycles k={}; {}", if lzma2 { "Lzma2Decoder" } else { "LzmaDecoder" }, k, notes.join("; "));
        sc.set_l("ops", ops);
        return sc;
    }
    for _ in 0..t.range(2, 10) {
        let r = t.below(10);
        if r < 4 {
            ops.extend_from_slice(&[OP_DECOMP, t.below(nstreams as u64)]);
        } else if r == 4 {
            // the upstream dies half-way through a decode (I/O error, not corruption)
            let k = t.range(1, 60);
            ops.extend_from_slice(&[OP_DECOMP_SRC_FAULT, (k << 8) | t.below(nstreams as u64)]);
        } else if r == 5 && t.below(2) == 0 {
            // the downstream dies: a write call or the final flush of the sink fails
            let k = if t.below(3) == 0 { 0 } else { t.range(1, 4) };
            let fl = if k == 0 { 1 } else { t.below(2) };
            ops.extend_from_slice(&[OP_DECOMP_SINK_FAULT, (fl << 16) | (k << 8) | t.below(nstreams as u64)]);
        } else if lzma2 || r == 5 {
            ops.extend_from_slice(&[OP_RESET_NONE, 0]);
        } else if r == 6 {
            ops.extend_from_slice(&[OP_RESET_SOME_NONE, 0]);
        } else {
            let s = sizes[t.below(nstreams as u64) as usize];
            let s = match t.below(8) {
                0 => s + 1,
                1 => s.saturating_sub(1),
                // values at the edges of the type (all-ones means "unknown" in a
                // .lzma header, but is an ordinary number here)
                2 => [u64::MAX, u64::MAX - 1, 0, 1 << 32, 1 << 63][t.below(5) as usize],
                _ => s,
            };
            ops.extend_from_slice(&[OP_RESET_SOME_SIZE, s]);
        }
    }
    // make sure the history ends with reset + decompress
    ops.extend_from_slice(&[OP_RESET_NONE, 0, OP_DECOMP, t.below(nstreams as u64)]);
    sc.note = format!("{}; {}", if lzma2 { "Lzma2Decoder" } else { "LzmaDecoder" }, notes.join("; "));
    sc.set_l("ops", ops);
    sc
}

fn err_kind<T, E: std::fmt::Display>(r: Result<T, E>) -> Verdict {
    match r {
        Ok(_) => Verdict::Ok,
        Err(e) => Verdict::Err(e.to_string()),
    }
}

fn exec(sc: &Scenario, ctx: &mut Ctx) -> Vec<Violation> {
    let lzma2 = sc.i("lzma2") == 1;
    let ops = sc.l("ops");
    let rd_script = sc.l("rd_script");
    let streams: Vec<&[u8]> = (0..sc.i("nstreams")).map(|i| sc.b(&format!("s{}", i))).collect();
    let params = |size: Option<u64>| {
        LzmaParams::new(
            LzmaProperties {
                lc: sc.i("raw_lc") as u32,
                lp: sc.i("raw_lp") as u32,
                pb: sc.i("raw_pb") as u32,
            },
            sc.i("raw_dict") as u32,
            size,
        )
    };
    // the same memory limit for the reused decoder and for every fresh one
    let memlimit: Option<usize> = sc.opt_i("memlimit").map(|m| m as usize);
    let mut cur_size: Option<u64> = sc.opt_i("init_size");
    // OP_CYCLE expands to k x (reset re-specifying what the stream needs, decompress)
    let mut prim: Vec<[u64; 2]> = Vec::new();
    let mut cycles = 0u64;
    for p in ops.chunks(2) {
        if p[0] == OP_CYCLE {
            let i = (p[1] & 0xFF) as usize;
            let marker = sc.l("markers").get(i).copied().unwrap_or(0) == 1;
            let size = sc.l("sizes").get(i).copied().unwrap_or(0);
            for _ in 0..(p[1] >> 8) {
                prim.push(if marker { [OP_RESET_SOME_NONE, 0] } else { [OP_RESET_SOME_SIZE, size] });
                prim.push([OP_DECOMP, i as u64]);
                cycles += 1;
            }
        } else {
            prim.push([p[0], p[1]]);
        }
    }
    let mut result: Vec<Violation> = Vec::new();
    let mut compared = 0u64;
    let mut dirty_compared = 0u64;
    let mut io_dirty = 0u64;
    let mut sink_dirty = 0u64;
    let r = guarded(|| {
        let mut d1 = if lzma2 { None } else { LzmaDecoder::new(params(cur_size), memlimit).ok() };
        let mut d2 = if lzma2 { Some(Lzma2Decoder::new()) } else { None };
        let mut just_reset = false;
        let mut dirty = false; // something failed half-way since construction
        for p in prim.iter() {
            match p[0] {
                OP_DECOMP => {
                    let data = streams[(p[1] as usize).min(streams.len() - 1)];
                    let mut out = Vec::new();
                    // the same reader behaviour for the reused and the fresh decoder: a
                    // slice, or refills of a few bytes (chunks then straddle refills)
                    let (v, used) = if rd_script.is_empty() {
                        let mut r: &[u8] = data;
                        let v = if let Some(d) = d1.as_mut() {
                            err_kind(d.decompress(&mut r, &mut out))
                        } else if let Some(d) = d2.as_mut() {
                            err_kind(d.decompress(&mut r, &mut out))
                        } else {
                            Verdict::Err("constructor refused".into())
                        };
                        (v, data.len() - r.len())
                    } else {
                        let mut r = crate::env::SimSource::new(data, rd_script, crate::env::Faults::none());
                        let v = if let Some(d) = d1.as_mut() {
                            err_kind(d.decompress(&mut r, &mut out))
                        } else if let Some(d) = d2.as_mut() {
                            err_kind(d.decompress(&mut r, &mut out))
                        } else {
                            Verdict::Err("constructor refused".into())
                        };
                        (v, r.consumed())
                    };
                    if just_reset {
                        // the model: a freshly constructed decoder
                        let mut fout = Vec::new();
                        let (fv, fused) = if rd_script.is_empty() {
                            let mut fr: &[u8] = data;
                            let fv = if lzma2 {
                                err_kind(Lzma2Decoder::new().decompress(&mut fr, &mut fout))
                            } else {
                                match LzmaDecoder::new(params(cur_size), memlimit) {
                                    Ok(mut f) => err_kind(f.decompress(&mut fr, &mut fout)),
                                    Err(e) => Verdict::Err(e.to_string()),
                                }
                            };
                            (fv, data.len() - fr.len())
                        } else {
                            let mut fr = crate::env::SimSource::new(data, rd_script, crate::env::Faults::none());
                            let fv = if lzma2 {
                                err_kind(Lzma2Decoder::new().decompress(&mut fr, &mut fout))
                            } else {
                                match LzmaDecoder::new(params(cur_size), memlimit) {
                                    Ok(mut f) => err_kind(f.decompress(&mut fr, &mut fout)),
                                    Err(e) => Verdict::Err(e.to_string()),
                                }
                            };
                            (fv, fr.consumed())
                        };
                        compared += 1;
                        if dirty {
                            dirty_compared += 1;
                        }
                        if fv.kind() != v.kind() || fout != out || (v.is_ok() && fused != used) {
                            result.push(Violation::new(
                                "reset_differs_from_new",
                                if lzma2 { "raw::Lzma2Decoder" } else { "raw::LzmaDecoder" },
                                format!(
                                    "after reset: {} with {} bytes (consumed {}); fresh decoder: {} with {} bytes (consumed {}); size in effect {:?}",
                                    v.short(), out.len(), used, fv.short(), fout.len(), fused, cur_size
                                ),
                                sc,
                            ));
                            return;
                        }
                    }
                    if !v.is_ok() {
                        dirty = true;
                    }
                    just_reset = false;
                }
                OP_DECOMP_SRC_FAULT => {
                    let data = streams[((p[1] & 0xFF) as usize).min(streams.len() - 1)];
                    let mut out = Vec::new();
                    let script = [1u64];
                    let mut src = crate::env::SimSource::new(data, &script, crate::env::Faults::one(p[1] >> 8, crate::env::FK_OTHER));
                    let v = if let Some(d) = d1.as_mut() {
                        err_kind(d.decompress(&mut src, &mut out))
                    } else if let Some(d) = d2.as_mut() {
                        err_kind(d.decompress(&mut src, &mut out))
                    } else {
                        Verdict::Err("constructor refused".into())
                    };
                    if !v.is_ok() {
                        dirty = true;
                        io_dirty += 1;
                    }
                    just_reset = false;
                }
                OP_DECOMP_SINK_FAULT => {
                    let data = streams[((p[1] & 0xFF) as usize).min(streams.len() - 1)];
                    let k = (p[1] >> 8) & 0xFF;
                    let wf = crate::env::Faults::one(k, crate::env::FK_OTHER);
                    let ff = if p[1] >> 16 & 1 == 1 { crate::env::Faults::one(1, crate::env::FK_OTHER) } else { crate::env::Faults::none() };
                    let (mut sink, _h) = crate::env::SimSink::new(None, &[], wf, ff);
                    let mut r: &[u8] = data;
                    let v = if let Some(d) = d1.as_mut() {
                        err_kind(d.decompress(&mut r, &mut sink))
                    } else if let Some(d) = d2.as_mut() {
                        err_kind(d.decompress(&mut r, &mut sink))
                    } else {
                        Verdict::Err("constructor refused".into())
                    };
                    if !v.is_ok() {
                        dirty = true;
                        sink_dirty += 1;
                    }
                    just_reset = false;
                }
                OP_RESET_NONE => {
                    if let Some(d) = d1.as_mut() {
                        d.reset(None);
                    }
                    if let Some(d) = d2.as_mut() {
                        d.reset();
                    }
                    just_reset = true;
                }
                OP_RESET_SOME_NONE => {
                    if let Some(d) = d1.as_mut() {
                        d.reset(Some(None));
                        cur_size = None;
                    }
                    if let Some(d) = d2.as_mut() {
                        d.reset();
                    }
                    just_reset = true;
                }
                _ => {
                    if let Some(d) = d1.as_mut() {
                        d.reset(Some(Some(p[1])));
                        cur_size = Some(p[1]);
                    }
                    if let Some(d) = d2.as_mut() {
                        d.reset();
                    }
                    just_reset = true;
                }
            }
        }
    });
    ctx.stats.add("probe.reset_then_decompress_compared_with_fresh_decoder", compared);
    ctx.stats.add("probe.compared_after_a_decode_failed_half_way", dirty_compared);
    ctx.stats.add("fault.fired.source_error_in_the_middle_of_a_decode", io_dirty);
    ctx.stats.add("fault.fired.sink_error_during_a_decode_or_at_its_final_flush", sink_dirty);
    if cycles > 2 {
        ctx.stats.hit("arm.many_reuse_cycles");
        ctx.stats.max("max_reuse_cycles_of_one_decoder", cycles);
    }
    if cycles >= 256 {
        ctx.stats.hit("probe.256_or_more_reuse_cycles");
    }
    if memlimit.is_some() {
        ctx.stats.hit("arm.decoders_constructed_with_a_memory_limit");
    }
    if !rd_script.is_empty() {
        ctx.stats.hit("arm.decodes_through_refills_of_a_few_bytes");
    }
    if lzma2 {
        ctx.stats.hit("arm.lzma2_decoder");
    } else {
        ctx.stats.hit("arm.lzma_decoder");
    }
    ctx.stats.eval(sc.hash(), compared > 0, prim.len() as u64);
    if let Err(p) = r {
        return vec![Violation::new("panic", &panic_locus(&p), p, sc)];
    }
    result
}

pub static C14: SimpleProp = SimpleProp {
    id: "C14",
    level: "exploration",
    rule: "one evaluation = one history of 4-12 operations (or, 1 run in 24, of A, k x (reset, B), reset, A with k up to 1025 - 65537 in the thorough tier - reuse cycles) {decompress stream i (valid, bit-flipped, truncated, spliced, or cut short by an injected source error after k one-byte refills, or by the sink failing at its k-th write or at the final flush), reset(None), reset(Some(None)), reset(Some(Some(n))) with n = a stream's size, ±1, or 0 / 2^32 / 2^63 / 2^64-1} (a third of the histories read every stream through refills of 1-64 bytes, the others from a slice) on a single raw::LzmaDecoder (any lc/lp/pb, dictionary 1..65536; a third constructed with a memory limit, which every fresh decoder then shares) or raw::Lzma2Decoder (streams with changing properties); after every reset the next decompress is compared (verdict, bytes, consumed count) with a freshly constructed decoder with the same parameters and the size last specified; non-trivial = at least one such comparison; distinct by scenario hash",
    runs_quick: 120_000,
    runs_thorough: 6_000_000,
    both_profiles: false,
    assumptions: &[
        "reset(None) keeps the size last specified (as the code documents); the fresh decoder is constructed with that size",
        "decompress calls that do not directly follow a reset are executed (they dirty the state) but not compared",
    ],
    gen,
    exec,
    enumerate: None,
};
