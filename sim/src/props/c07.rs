//! C07 — decoders are total: no panic, no hang, bounded memory on arbitrary
//! bytes. Arbitrary / mutated / near-valid inputs x every decoding entry point
//! x call histories x both arithmetic profiles.

use super::c05::draw_history;
use super::c13::mutate;
use super::common::*;
use crate::drive::*;
use crate::env::*;
use crate::gen;
use crate::heap;
use crate::prng::Tape;
use crate::refmodel::codec::{Props, RefDec};
use crate::refmodel::container::*;
use crate::runner::{Ctx, SimpleProp, Tier};
use crate::scenario::{Scenario, Violation};

fn near_valid_xz(t: &mut Tape) -> Vec<u8> {
    let mut plan = gen_xz_plan(t, 200);
    // grammar-level perturbations with CRCs recomputed
    for _ in 0..t.range(1, 3) {
        let ext: u64 = [0u64, 1, 0x7F, 0x80, 0xFFFF_FFFF, 1 << 31, (1 << 63) - 1, 1 << 40][t.below(8) as usize];
        match t.below(12) {
            0 => plan.ov_backward = Some(ext as u32),
            1 => plan.ov_index_count = Some(ext),
            2 => plan.ov_index_records = Some(t.below(4) as usize),
            3 => plan.ov_hflags = Some([t.byte(), t.byte()]),
            4 => plan.check_id = t.below(16) as u8,
            5 => plan.trailing = gen::draw_bytes(t, 8),
            6 if !plan.blocks.is_empty() => {
                // every index record (or every one but the first) claims a huge size: sums
                // over the records reach 2^64 although no single value does
                let from = t.below(2) as usize;
                let big = [(1u64 << 63) - 1, (1 << 63) - 3, 1 << 62, (1 << 63) - 4, 1 << 61][t.below(5) as usize];
                let which = t.below(3);
                for i in from..plan.blocks.len() {
                    plan.ov_records.push((i, if which != 1 { Some(big) } else { None }, if which != 0 { Some(big) } else { None }));
                }
            }
            _ => {
                if !plan.blocks.is_empty() {
                    let bi = t.below(plan.blocks.len() as u64) as usize;
                    let b = &mut plan.blocks[bi];
                    match t.below(8) {
                        0 => {
                            b.has_csize = true;
                            b.ov_csize = Some(ext)
                        }
                        1 => {
                            b.has_usize = true;
                            b.ov_usize = Some(ext)
                        }
                        2 => b.ov_size_byte = Some(t.byte()),
                        3 => {
                            let n = t.below(3) as usize;
                            b.filters = vec![(0x21, gen::draw_bytes(t, n))]
                        }
                        4 => b.filters = vec![(0x21, vec![22]), (0x21, vec![22])],
                        5 => b.flags_or = t.byte() & 0x3F,
                        6 => {
                            // the filter's "size of properties" says more (or less) than the
                            // header holds: a few bytes more than are left, up to the header
                            // size and beyond, or a huge value
                            b.ov_props_size = Some(match t.below(4) {
                                0 => ext,
                                1 => t.range(2, 12),
                                2 => 4 * (t.below(8) + 2) + t.below(9),
                                _ => 0,
                            });
                            b.extra_pad4 = [0u32, 0, 1, 2, 3, 8][t.below(6) as usize];
                        }
                        _ => b.extra_pad4 = t.below(256) as u32,
                    }
                }
            }
        }
    }
    let mut bytes = build_xz(&plan).bytes;
    if t.below(3) == 0 {
        // patch a VLI-looking byte run to the 9-byte maximum
        if bytes.len() > 30 {
            let at = 13 + t.below((bytes.len() - 25) as u64) as usize;
            for i in 0..9 {
                if at + i < bytes.len() {
                    bytes[at + i] = if i < 8 { 0xFF } else { t.byte() };
                }
            }
        }
    }
    bytes
}

/// Very many whole .xz streams one after the other (stored as one stream and a
/// count): more than one stream is outside the supported subset, so the answer is
/// an error - but it has to be an answer, however many streams follow.
fn gen_many_streams(t: &mut Tape) -> Scenario {
    let mut sc = Scenario::new("c07");
    sc.set_i("ep", EP_XZ);
    let mut plan = gen_xz_plan(t, 8);
    while plan.blocks.len() > 1 {
        plan.blocks.pop();
    }
    let unit = build_xz(&plan).bytes;
    let n = [2u64, 3, 1000, 30_000, 120_000][t.below(5) as usize];
    sc.set_i("rep_n", n);
    sc.note = format!("{} valid .xz streams of {} bytes one after the other", n, unit.len());
    sc.set_b("input", unit);
    OptSpec::default().store(&mut sc);
    RawSpec::default().store(&mut sc);
    sc.set_i("rk", [RK_SLICE, RK_SIM, RK_BUFREADER][t.below(3) as usize]);
    sc.set_i("bufcap", crate::gen::draw_bufcap(t, 100));
    if sc.i("rk") != RK_SLICE {
        sc.set_l("src_script", vec![t.range(1000, 70_000)]);
    }
    sc
}

fn gen(t: &mut Tape, _tier: Tier) -> Scenario {
    if t.below(400) == 0 {
        return gen_many_streams(t);
    }
    let mut sc = Scenario::new("c07");
    let ep = [EP_LZMA, EP_LZMA, EP_LZMA2, EP_XZ, EP_XZ, EP_STREAM, EP_STREAM, EP_RAW_LZMA, EP_RAW_LZMA2][t.below(9) as usize];
    sc.set_i("ep", ep);
    let mut opts = OptSpec::default();
    let mut raw = RawSpec::default();
    let src = t.below(10);
    let mut note;
    let mut input: Vec<u8>;
    // base input
    match ep {
        EP_LZMA | EP_STREAM | EP_RAW_LZMA => {
            if src <= 1 {
                let n = t.range(0, 300) as usize;
                input = gen::draw_bytes(t, n);
                note = "random bytes".to_string();
            } else if src == 2 {
                // header only: huge dictionary and size, then little or nothing
                input = vec![t.below(225) as u8];
                input.extend_from_slice(&0xFFFF_FFFFu32.to_le_bytes());
                input.extend_from_slice(&(1u64 << 63).to_le_bytes());
                let extra = t.below(12) as usize;
                let e = gen::draw_bytes(t, extra);
                input.extend_from_slice(&e);
                note = "header announcing a 4 GiB dictionary and 2^63 bytes".to_string();
            } else if ep == EP_RAW_LZMA && src >= 7 {
                // valid stream for a tiny dictionary: the circular window wraps
                let dict = [1u64, 2, 3, 5, 16, 64, 300][t.below(7) as usize];
                let b = gen_lzma_raw_dict(t, dict, 0, 3000);
                input = b.payload.clone();
                raw = RawSpec {
                    lc: b.props.lc,
                    lp: b.props.lp,
                    pb: b.props.pb,
                    dict: dict as u32,
                    size: if b.marker { None } else { Some(b.expect.len() as u64) },
                    pre: None,
                };
                note = format!("valid stream, raw dictionary {}", dict);
            } else {
                let b = if src == 3 {
                    gen_long(t, 0)
                } else if src == 4 {
                    // output of several laps of the smallest header dictionary
                    gen_lzma(t, 0, 20_000)
                } else {
                    gen_lzma(t, 0, 3000)
                };
                input = if ep == EP_RAW_LZMA { b.payload.clone() } else { b.std_file() };
                raw = RawSpec {
                    lc: b.props.lc,
                    lp: b.props.lp,
                    pb: b.props.pb,
                    dict: b.dict_hdr,
                    size: if b.marker { None } else { Some(b.expect.len() as u64) },
                    pre: None,
                };
                note = "valid stream".to_string();
            }
            opts.mode = t.below(3);
            if t.below(3) == 0 {
                opts.provided = Some([0u64, 1, 100, 1 << 20, 1 << 40, u64::MAX, 1 << 63][t.below(7) as usize]);
            }
            if t.below(5) == 0 {
                opts.memlimit = Some([0usize, 1, 100, 4096, 1 << 20, usize::MAX][t.below(6) as usize]);
            }
            if ep == EP_RAW_LZMA && t.below(2) == 0 {
                // any parameter value the constructor accepts
                raw.lc = t.below(9) as u32;
                raw.lp = t.below(5) as u32;
                raw.pb = t.below(5) as u32;
                raw.dict = [0u32, 1, 2, 4095, 4096, 0xFFFF_FFFF, 1 << 16][t.below(7) as usize];
                raw.size = [None, Some(0), Some(1), Some(u64::MAX), Some(1 << 63), Some(300)][t.below(6) as usize];
                if t.below(40) == 0 {
                    raw.lc = 9 + t.below(30) as u32; // constructor is expected to refuse
                }
            }
        }
        EP_LZMA2 | EP_RAW_LZMA2 => {
            if src <= 1 {
                let n = t.range(0, 300) as usize;
                input = gen::draw_bytes(t, n);
                note = "random bytes".to_string();
            } else if src == 2 {
                // chunk headers with extreme size fields and little data
                input = Vec::new();
                for _ in 0..t.range(1, 4) {
                    input.push([0x01u8, 0x02, 0x80, 0xE0, 0xFF, 0xC0, 0xA0][t.below(7) as usize]);
                    input.extend_from_slice(&[0xFF, 0xFF, 0xFF, 0xFF]);
                    let n = t.below(20) as usize;
                    let e = gen::draw_bytes(t, n);
                    input.extend_from_slice(&e);
                }
                note = "chunk headers with maximal size fields".to_string();
            } else {
                let strict = t.below(3) != 0;
                let b = gen_lzma2(t, 3000, strict);
                input = b.bytes;
                note = format!("LZMA2 {}", b.note);
            }
        }
        _ => {
            if src <= 1 {
                let n = t.range(0, 200) as usize;
                input = gen::draw_bytes(t, n);
                if t.below(2) == 0 && input.len() >= 6 {
                    input[..6].copy_from_slice(&[0xFD, 0x37, 0x7A, 0x58, 0x5A, 0x00]);
                }
                note = "random bytes (with xz magic)".to_string();
            } else if src <= 5 {
                input = near_valid_xz(t);
                note = "grammar-generated near-valid xz".to_string();
            } else {
                let plan = gen_xz_plan(t, 600);
                input = build_xz(&plan).bytes;
                note = "valid xz".to_string();
            }
        }
    }
    // mutations on top
    let nm = t.below(4);
    for _ in 0..nm {
        let m = mutate(t, &mut input);
        note.push_str(&format!(" +{}", m));
    }
    if t.below(6) == 0 && input.len() > 8 {
        // field extremes written over a random aligned position
        let at = t.below(input.len() as u64 - 8) as usize;
        let val: u64 = [0u64, u64::MAX, 1 << 31, 0xFFFF_FFFF, 1 << 63][t.below(5) as usize];
        let w = [1usize, 2, 4, 8][t.below(4) as usize];
        input[at..at + w].copy_from_slice(&val.to_le_bytes()[..w]);
        note.push_str(" +field extreme");
    }
    if input.len() > 65_536 {
        input.truncate(65_536);
    }
    if ep == EP_STREAM {
        let mut ops = draw_history(t, input.len(), &[], true);
        // keep calling after errors
        for _ in 0..t.below(4) {
            let at = (t.below(ops.len() as u64 / 2) * 2) as usize;
            ops.splice(at..at, [OP_WRITE, t.range(0, 50)]);
        }
        sc.set_l("ops", ops);
        opts.allow_incomplete = t.below(3) == 0;
    }
    opts.store(&mut sc);
    raw.store(&mut sc);
    sc.note = note;
    sc.set_b("input", input);
    sc.set_i("rk", [RK_SLICE, RK_SIM, RK_BUFREADER][t.below(3) as usize]);
    sc.set_i("bufcap", crate::gen::draw_bufcap(t, 100));
    sc.set_l("src_script", gen::draw_script(t));
    if t.below(4) == 0 {
        // arbitrary bytes AND a misbehaving environment: I/O faults at random calls
        let mut f = Vec::new();
        for _ in 0..t.range(1, 2) {
            f.push(t.range(1, 40));
            f.push([FK_OTHER, FK_INTERRUPTED, FK_WOULDBLOCK, FK_UNEXPECTED_EOF][t.below(4) as usize]);
        }
        sc.set_l("src_faults", f);
        if t.below(2) == 0 {
            sc.set_l(
                "sink_wfaults",
                vec![t.range(1, 6), [FK_OTHER, FK_INTERRUPTED, FK_WRITE_ZERO, FK_DISK_FULL][t.below(4) as usize]],
            );
        }
        if t.below(4) == 0 {
            sc.set_l("sink_ffaults", vec![1, FK_OTHER]);
        }
    }
    sc
}

/// How many bytes a correct decoder produces internally from this input before
/// it ends or fails (so that memory can be judged "in proportion").
fn reference_production(sc: &Scenario) -> usize {
    let ep = sc.i("ep");
    let input = sc.b("input");
    let opts = OptSpec::load(sc);
    let raw = RawSpec::load(sc);
    match ep {
        EP_LZMA | EP_STREAM => {
            let hl = opts.header_len();
            if input.len() < hl + 5 {
                return 0;
            }
            let props = match Props::from_byte(input[0]) {
                Some(p) => p,
                None => return 0,
            };
            let size = match opts.mode {
                0 => {
                    let mut b8 = [0u8; 8];
                    b8.copy_from_slice(&input[5..13]);
                    let v = u64::from_le_bytes(b8);
                    if v == u64::MAX {
                        None
                    } else {
                        Some(v)
                    }
                }
                _ => opts.provided,
            };
            let mut d = RefDec::new(props, u64::MAX);
            // bounded: the sink cap stops the real decoder as well
            let _ = d.decode_segment(&input[hl..], Some(size.unwrap_or(u64::MAX).min(CAP as u64 + 70_000)), true);
            d.model.out.len()
        }
        EP_RAW_LZMA => {
            if raw.lc > 8 || raw.lp > 4 || raw.pb > 4 || input.len() < 5 {
                return 0;
            }
            let mut d = RefDec::new(
                Props {
                    lc: raw.lc,
                    lp: raw.lp,
                    pb: raw.pb,
                },
                u64::MAX,
            );
            let _ = d.decode_segment(input, Some(raw.size.unwrap_or(u64::MAX).min(CAP as u64 + 70_000)), true);
            d.model.out.len()
        }
        EP_LZMA2 | EP_RAW_LZMA2 => {
            let mut p = 0usize;
            let _ = ref_lzma2_decode_partial(input, false, &mut p);
            p
        }
        _ => {
            // xz: production of every block payload a lenient walk can reach
            let mut total = 0usize;
            let mut pos = 12usize;
            while pos < input.len() {
                let b = input[pos];
                if b == 0 {
                    break;
                }
                let ds = pos + (b as usize + 1) * 4;
                if ds >= input.len() {
                    break;
                }
                let mut p = 0usize;
                let r = ref_lzma2_decode_partial(&input[ds..], false, &mut p);
                total += p;
                match r {
                    Ok((_, used)) => {
                        let mut q = ds + used;
                        q += (4 - (q - pos) % 4) % 4;
                        q += check_size(input.get(7).copied().unwrap_or(0) & 0x0F);
                        pos = q;
                    }
                    Err(_) => break,
                }
            }
            total
        }
    }
}

/// sink cap: "disk full" afterwards
const CAP: usize = 4 << 20;

fn exec(sc: &Scenario, ctx: &mut Ctx) -> Vec<Violation> {
    let ep = sc.i("ep");
    let opts = OptSpec::load(sc);
    let raw = RawSpec::load(sc);
    let repeated;
    let input: &[u8] = if sc.has_i("rep_n") {
        ctx.stats.hit("arm.many_concatenated_xz_streams");
        ctx.stats.max("max_concatenated_streams", sc.i("rep_n"));
        repeated = sc.b("input").repeat(sc.i("rep_n") as usize);
        &repeated
    } else {
        sc.b("input")
    };
    // constructor of the raw decoder: a panic there means "does not accept"
    if ep == EP_RAW_LZMA {
        let r = guarded(|| {
            use lzma_rs::decompress::raw::{LzmaDecoder, LzmaParams, LzmaProperties};
            LzmaDecoder::new(
                LzmaParams::new(
                    LzmaProperties {
                        lc: raw.lc,
                        lp: raw.lp,
                        pb: raw.pb,
                    },
                    raw.dict,
                    raw.size,
                ),
                opts.memlimit,
            )
            .is_ok()
        });
        match r {
            Err(_) => {
                ctx.stats.observe("raw LzmaDecoder constructor refuses out-of-range lc/lp/pb by panicking (counted as 'does not accept', not a violation)");
                ctx.stats.eval(sc.hash(), false, 1);
                return Vec::new();
            }
            Ok(false) => {
                ctx.stats.hit("probe.raw_constructor_returned_err");
                ctx.stats.eval(sc.hash(), false, 1);
                return Vec::new();
            }
            Ok(true) => {}
        }
    }
    let (mut sink, st) = SimSink::new(
        None,
        &[],
        Faults::from_list(sc.l("sink_wfaults")),
        Faults::from_list(sc.l("sink_ffaults")),
    );
    if !sc.l("src_faults").is_empty() || !sc.l("sink_wfaults").is_empty() {
        ctx.stats.hit("arm.with_injected_io_faults");
    }
    {
        let mut s = st.borrow_mut();
        s.count_only = true;
        s.cap = CAP;
    }
    let base = heap::begin();
    let (v, events) = if ep == EP_STREAM {
        let o = run_stream(input, sc.l("ops"), &opts, sink, &st, true);
        let n = o.events.len() as u64;
        (stream_verdict(&o), n)
    } else {
        let (v, ro) = run_with_reader(
            ep,
            input,
            sc.i("rk"),
            sc.l("src_script"),
            Faults::from_list(sc.l("src_faults")),
            sc.i("bufcap") as usize,
            &mut sink,
            &opts,
            &raw,
            0,
            0,
        );
        (v, ro.calls)
    };
    let (peak, biggest) = heap::end(base);
    let delivered = st.borrow().total;
    match ep {
        EP_LZMA => ctx.stats.hit("arm.lzma_decompress_with_options"),
        EP_LZMA2 => ctx.stats.hit("arm.lzma2_decompress"),
        EP_XZ => ctx.stats.hit("arm.xz_decompress"),
        EP_STREAM => ctx.stats.hit("arm.stream"),
        EP_RAW_LZMA => ctx.stats.hit("arm.raw_lzma_decoder"),
        _ => ctx.stats.hit("arm.raw_lzma2_decoder"),
    }
    match &v {
        Verdict::Ok => ctx.stats.hit("verdict.ok"),
        Verdict::Err(_) => ctx.stats.hit("verdict.err"),
        Verdict::Panic(_) => ctx.stats.hit("verdict.panic"),
    }
    ctx.stats.eval(sc.hash(), !input.is_empty(), events + 1);
    if let Verdict::Panic(p) = &v {
        return vec![Violation::new(
            "panic",
            &format!("{}: {}", ep_name(ep), panic_locus(p)),
            format!("{} [{}]", p, sc.note),
            sc,
        )];
    }
    // memory in proportion to bytes consumed and produced
    let produced = reference_production(sc).max(delivered);
    let lclp = match ep {
        EP_LZMA | EP_STREAM => input.first().map(|b| if *b < 225 { (*b as u32 % 9) + (*b as u32 / 9) % 5 } else { 0 }).unwrap_or(0),
        EP_RAW_LZMA => raw.lc + raw.lp,
        _ => 4,
    };
    let table = 2usize * (0x300usize << lclp) * if matches!(ep, EP_LZMA | EP_STREAM | EP_RAW_LZMA) { 1 } else { 2 };
    let slack = 256 * 1024;
    let bound = table + 8 * (input.len() + produced) + slack;
    ctx.stats.max("max_heap_peak_bytes", peak as u64);
    ctx.stats.max(
        "max_heap_excess_over_table_plus_8x_io_bytes",
        peak.saturating_sub(table + 8 * (input.len() + produced)) as u64,
    );
    ctx.stats.max("max_heap_peak_per_mille_of_bound", (peak as u64 * 1000) / bound as u64);
    if peak > bound {
        return vec![Violation::new(
            "memory_out_of_proportion",
            ep_name(ep),
            format!(
                "heap peak {} bytes (largest single request {}) for {} input bytes and {} produced bytes; allowance = table {} + 8*(in+out) + {} = {} [{}]",
                peak, biggest, input.len(), produced, table, slack, bound, sc.note
            ),
            sc,
        )];
    }
    if sc.note.starts_with("header announcing") {
        ctx.stats.hit("probe.huge_header_only");
    }
    Vec::new()
}

pub static C07: SimpleProp = SimpleProp {
    id: "C07",
    level: "exploration",
    rule: "one evaluation = one run of a decoding entry point (lzma_decompress_with_options with every option / supplied-size / memlimit combination, lzma2_decompress, xz_decompress, Stream under a random history that keeps calling after errors, raw::LzmaDecoder with any accepted lc/lp/pb/dictionary(incl. 0)/size, raw::Lzma2Decoder) on: uniformly random bytes; a header announcing a 4 GiB dictionary and 2^63 bytes; LZMA2 chunk headers with maximal size fields; valid streams (incl. adversarial long symbols); grammar-generated near-valid .xz (field extremes with CRCs recomputed, 9-byte VLIs, nested/odd filters, a size-of-properties that is not what follows, every index record huge at once); each with 0-3 further mutations (bit flip, truncation, splice, duplication, extension, field extremes), a quarter of them with I/O faults injected at random source/sink calls as well — under the overflow-checked and the wrapping build. Monitors: no unwind; heap peak (metering allocator) <= literal table + 8*(input + bytes a correct decoder produces) + 256 KiB (only allocations made while library code runs are metered); a 120 s no-progress supervisor. Non-trivial = non-empty input; distinct by scenario hash",
    runs_quick: 250_000,
    runs_thorough: 20_000_000,
    both_profiles: true,
    assumptions: &[
        "bytes produced are taken from the reference decoder run on the same input (a failed run delivers nothing to the sink although the window had grown)",
        "a raw-decoder constructor that refuses by panicking (lc > 8 etc.) counts as 'does not accept' — recorded as an observation",
        "real allocation failure aborts the process and is not simulated; sink capped at 4 MiB (disk full afterwards)",
        "64-bit usize only",
    ],
    gen,
    exec,
    enumerate: None,
};
