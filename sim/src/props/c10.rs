//! C10 — the memory limit is honoured exactly (one-shot, Stream, raw decoder).

use super::c05::draw_history;
use super::common::*;
use crate::drive::*;
use crate::env::*;
use crate::heap;
use crate::prng::Tape;
use crate::runner::{Ctx, SimpleProp, Tier};
use crate::scenario::{Scenario, Violation};
use std::rc::Rc;

/// Windows of 32 KiB - 256 KiB that wrap at least once (match-heavy streams
/// described by a few numbers and rebuilt at execution, see C01's large arm):
/// what the decoder holds *while it hands a full window over* shows only here.
fn gen_wide(t: &mut Tape) -> Scenario {
    let mut sc = Scenario::new("c10");
    sc.set_i("wide", 1);
    let props = crate::gen::draw_props(t, false);
    sc.set_l("props", vec![props.lc as u64, props.lp as u64, props.pb as u64]);
    let dict = [32_768u64, 65_536, 49_152, 100_000, 262_144, 65_537][t.below(6) as usize];
    sc.set_i("dict", dict);
    let total = dict + dict * t.below(150) / 100 + t.below(300);
    sc.set_i("total", total);
    sc.set_i("prefix", t.range(1, 300));
    sc.set_i("rng", t.u64());
    sc.set_i("marker", t.below(2));
    let stream = t.below(3) == 0;
    sc.set_i("ep", if stream { EP_STREAM } else { EP_LZMA });
    let need = dict.min(total);
    let m = match t.below(6) {
        0 => need.saturating_sub(1),
        1 | 2 => need,
        3 => need + 1,
        4 => dict * 2,
        _ => u64::MAX,
    };
    let mut opts = OptSpec::default();
    opts.memlimit = Some(m.min(usize::MAX as u64) as usize);
    opts.store(&mut sc);
    RawSpec::default().store(&mut sc);
    if stream {
        let ops = vec![OP_WRITE, t.range(1, 5000), OP_WRITE_N, t.range(1, 100_000), OP_FLUSH, 0, OP_WRITE_ALL, 0, OP_FINISH, 0];
        sc.set_l("ops", ops);
    }
    sc.set_i("need", need);
    sc.set_i("lclp", (props.lc + props.lp) as u64);
    sc.note = format!("wide window: lc={} lp={} pb={} dict={} produced={} need={} memlimit={}", props.lc, props.lp, props.pb, dict, total, need, m);
    sc
}

/// Put the rebuilt stream of a wide scenario where `run` expects it.
fn materialize(sc: &Scenario) -> Scenario {
    let (props, payload, expect, _) = build_large_stream(sc);
    let marker = sc.i("marker") == 1;
    let mut f = crate::refmodel::container::lzma_header(props, sc.i("dict") as u32, Some(if marker { u64::MAX } else { expect.len() as u64 }));
    f.extend_from_slice(&payload);
    let mut s2 = sc.clone();
    s2.set_b("input", f);
    s2.set_b("expect", expect);
    s2
}

fn gen(t: &mut Tape, _tier: Tier) -> Scenario {
    if t.below(400) == 0 {
        return gen_wide(t);
    }
    let mut sc = Scenario::new("c10");
    let which = t.below(4); // 0,1 one-shot; 2 stream; 3 raw
    let mut opts = OptSpec::default();
    let mut raw = RawSpec::default();
    let b;
    if which == 3 {
        let dict = [1u64, 2, 5, 16, 64, 300, 4096, 5000][t.below(8) as usize];
        b = gen_lzma_raw_dict(t, dict, 0, 20_000);
        raw = RawSpec {
            lc: b.props.lc,
            lp: b.props.lp,
            pb: b.props.pb,
            dict: dict as u32,
            size: if b.marker { None } else { Some(b.expect.len() as u64) },
            // a third of the raw runs use a decoder object that was constructed for
            // another size and re-targeted with reset(Some(size))
            pre: if t.below(3) == 0 {
                Some(match t.below(5) {
                    0 => 0,
                    1 => 1,
                    2 => t.range(2, 64),
                    3 => b.expect.len() as u64 / 2,
                    _ => b.expect.len() as u64 + t.range(1, 5000),
                })
            } else {
                None
            },
        };
        sc.set_i("ep", EP_RAW_LZMA);
        sc.set_b("input", b.payload.clone());
    } else {
        b = gen_lzma(t, 0, 20_000);
        sc.set_i("ep", if which == 2 { EP_STREAM } else { EP_LZMA });
        // all three header options (the limit is applied by the same window
        // whichever way the size arrives)
        opts.mode = t.below(3);
        let size = if b.marker { None } else { Some(b.expect.len() as u64) };
        let f = match opts.mode {
            0 => b.std_file(),
            1 => {
                opts.provided = size;
                b.file(Some(t.u64()))
            }
            _ => {
                opts.provided = size;
                b.file(None)
            }
        };
        sc.set_b("input", f);
    }
    // "lying header": the same stream under a header that announces a huge
    // dictionary and a huge size — nothing may be reserved on the strength of it
    if which != 3 && t.below(5) == 0 {
        let mut f = sc.b("input").to_vec();
        let big_dict: u32 = [0x4000_0000u32, 0xFFFF_FFFF, 0x1000_0000][t.below(3) as usize];
        f[1..5].copy_from_slice(&big_dict.to_le_bytes());
        if !b.marker && opts.mode == 0 {
            // declared size larger than what the payload holds: both runs must fail
            f[5..13].copy_from_slice(&(0x4000_0000u64).to_le_bytes());
            sc.set_i("lying_size", 1);
        }
        sc.set_b("input", f);
        sc.set_i("lying_header", 1);
    }
    let dict = if sc.i("lying_header") == 1 { 0x1000_0000u64.max(b.dict) } else { b.dict };
    let produced = b.expect.len() as u64;
    let need = dict.min(produced);
    let m: u64 = if t.below(12) == 0 {
        // limits beyond 32 bits: a needed window is always below 2^32, so these are "no limit"
        [1u64 << 32, (1 << 32) + 1, 1 << 33, 1 << 40, u64::MAX - 0xFFFF_FFFF, (1 << 32) + need.saturating_sub(1)][t.below(6) as usize]
    } else { match t.below(9) {
        0 => 0,
        1 => need.saturating_sub(1),
        2 => need,
        3 => need + 1,
        4 => dict.saturating_sub(1),
        5 => dict,
        6 => u64::MAX,
        7 => t.range(0, need + 2),
        _ => need.saturating_sub(t.range(1, 50)),
    } };
    opts.memlimit = Some(m.min(usize::MAX as u64) as usize);
    if which == 2 {
        let n = sc.b("input").len();
        let ops = draw_history(t, n, &[], false);
        sc.set_l("ops", ops);
        // a quarter of the Stream runs allow incomplete input: finish then skips its
        // last decode pass, so the limit may never be reached - but a limited run that
        // succeeds must still deliver exactly what the unlimited run delivers
        opts.allow_incomplete = t.below(4) == 0;
    }
    if which < 2 && t.below(4) == 0 {
        // the one-shot decoder does not know the option: with it set, everything
        // must be exactly as without it (the strict rules below apply)
        opts.allow_incomplete = true;
    }
    if which != 2 && t.below(2) == 0 {
        sc.set_l("src_script", crate::gen::draw_script(t));
    }
    sc.note = format!(
        "lc={} lp={} pb={} dict={} produced={} need={} memlimit={}",
        b.props.lc, b.props.lp, b.props.pb, dict, produced, need, m
    );
    opts.store(&mut sc);
    raw.store(&mut sc);
    sc.set_i("need", need);
    sc.set_i("lclp", (b.props.lc + b.props.lp) as u64);
    sc.set_b("expect", b.expect);
    sc
}

fn run(sc: &Scenario, opts: &OptSpec, measure: bool) -> (Verdict, Vec<u8>, Option<usize>, usize, u64) {
    let ep = sc.i("ep");
    let raw = RawSpec::load(sc);
    let input = sc.b("input");
    let expect = Rc::new(sc.b("expect").to_vec());
    let (mut sink, st) = SimSink::new(Some(expect), &[], Faults::none(), Faults::none());
    // reserve the sink's storage up front so that its growth is not attributed
    // to the decoder
    // (+ the few symbols a decoder produces past the model under a lying size)
    st.borrow_mut().accepted.reserve(sc.b("expect").len() + 8 * 273 + 16);
    let mut events = 0u64;
    let base = if measure { heap::begin() } else { 0 };
    let v = if ep == EP_STREAM {
        let o = run_stream(input, sc.l("ops"), opts, sink, &st, false);
        events = o.events.len() as u64;
        stream_verdict(&o)
    } else {
        let (v, _) = run_with_reader(
            ep,
            input,
            if sc.l("src_script").is_empty() { RK_SLICE } else { RK_SIM },
            sc.l("src_script"),
            Faults::none(),
            0,
            &mut sink,
            opts,
            &raw,
            0,
            0,
        );
        v
    };
    let peak = if measure { heap::end(base).0 } else { 0 };
    let s = st.borrow();
    (v, s.accepted.clone(), s.first_bad, peak, events)
}

fn exec(sc0: &Scenario, ctx: &mut Ctx) -> Vec<Violation> {
    let wide;
    let sc = if sc0.i("wide") == 1 {
        ctx.stats.hit("arm.wide_window_that_wraps");
        wide = materialize(sc0);
        &wide
    } else {
        sc0
    };
    let opts = OptSpec::load(sc);
    let ep = sc.i("ep");
    let need = sc.i("need");
    let m = opts.memlimit.unwrap_or(usize::MAX) as u64;
    let mut unlimited = opts;
    unlimited.memlimit = None;
    let (v0, out0, _, _, _) = run(sc, &unlimited, false);
    let (v1, out1, bad1, peak, events) = run(sc, &opts, true);
    if m >= need {
        ctx.stats.hit("arm.limit_at_or_above_need");
        if m == need {
            ctx.stats.hit("probe.limit_exactly_need");
        }
    } else {
        ctx.stats.hit("arm.limit_below_need");
        ctx.stats.hit("fault.configured.memlimit_below_need");
        if v1.is_err() {
            ctx.stats.hit("fault.fired.memlimit_below_need");
        }
        if m + 1 == need {
            ctx.stats.hit("probe.limit_need_minus_one");
        }
    }
    match ep {
        EP_STREAM => ctx.stats.hit("arm.stream"),
        EP_RAW_LZMA => ctx.stats.hit("arm.raw_decoder"),
        _ => ctx.stats.hit("arm.one_shot"),
    }
    ctx.stats.eval(sc0.hash(), need > 0, events + 2);
    let mk = |class: &str, detail: String| vec![Violation::new(class, ep_name(ep), format!("{} [{}]", detail, sc.note), sc0)];
    for v in [&v0, &v1] {
        if let Verdict::Panic(p) = v {
            return vec![Violation::new("panic", &panic_locus(p), p.clone(), sc0)];
        }
    }
    let lying_size = sc.i("lying_size") == 1;
    // the relaxed rules are Stream's (finish skips its last pass under that option)
    let relaxed = opts.allow_incomplete && sc.i("ep") == EP_STREAM;
    if opts.allow_incomplete && !relaxed {
        ctx.stats.hit("arm.one_shot_with_incomplete_input_allowed");
    }
    if relaxed {
        // finish neither verifies the end of the stream nor decodes the look-ahead tail:
        // of the unlimited run only "Ok, and no wrong byte" can be demanded here
        if lying_size {
            ctx.stats.hit("probe.header_announces_more_than_the_payload_holds");
        }
        let e = sc.b("expect");
        // (a header lying about the size makes the decoder go on into the coder's flush
        // bytes, which decode to a few more symbols: then only the common part is compared)
        let n = out0.len().min(e.len());
        if !v0.is_ok() || (out0.len() > e.len() && !lying_size) || out0[..n] != e[..n] {
            return mk("unlimited_run_wrong", format!("incomplete input allowed, without a limit: {} with {} bytes", v0.short(), out0.len()));
        }
    } else if lying_size {
        ctx.stats.hit("probe.header_announces_more_than_the_payload_holds");
        if v0.is_ok() {
            return mk("unlimited_run_wrong", "declared size exceeds the payload, yet success".into());
        }
    } else if !v0.is_ok() || out0 != sc.b("expect") {
        return mk("unlimited_run_wrong", format!("without a limit: {}", v0.short()));
    }
    if sc.i("lying_header") == 1 {
        ctx.stats.hit("probe.header_announces_huge_dictionary");
    }
    if lying_size && !relaxed {
        // both runs fail at the end of the input; delivered bytes must be a prefix
        if v1.is_ok() || bad1.is_some() {
            return mk("limit_changes_result", format!("limited run: {}", v1.short()));
        }
    } else if relaxed {
        ctx.stats.hit("arm.stream_with_incomplete_input_allowed");
        if v1.is_ok() && (out1 != out0 || !v0.is_ok()) {
            return mk(
                "limit_changes_result",
                format!("incomplete input allowed, limit {}: the limited run succeeded with {} bytes, the unlimited one {} with {}", m, out1.len(), v0.short(), out0.len()),
            );
        }
        // (under a lying size the decoder produces a few symbols more than the model)
        let eff_need = if lying_size { need + 8 * 273 } else { need };
        if !v1.is_ok() && m >= eff_need {
            return mk(
                "limit_changes_result",
                format!("limit {} >= need {}: limited run {} (unlimited {})", m, eff_need, v1.short(), v0.short()),
            );
        }
        if let Some(off) = bad1 {
            // (bytes past the model's end under a lying size are the flush-byte symbols)
            if !(lying_size && off >= sc.b("expect").len()) {
                return mk("output_not_prefix", "bytes delivered under the limit are not a prefix".into());
            }
        }
    } else if m >= need {
        if v1.kind() != v0.kind() || out1 != out0 {
            return mk(
                "limit_changes_result",
                format!("limit {} >= need {}: limited run {} with {} bytes, unlimited Ok with {}", m, need, v1.short(), out1.len(), out0.len()),
            );
        }
    } else {
        if v1.is_ok() {
            return mk(
                "limit_not_enforced",
                format!("limit {} < need {} but decoding succeeded", m, need),
            );
        }
        if bad1.is_some() {
            return mk("output_not_prefix", "bytes delivered before the limit error are not a prefix".into());
        }
    }
    // heap: literal table + fixed decoder state + window (Vec growth factor 2) + slack
    let table = 2usize * (0x300usize << sc.i("lclp"));
    // the window Vec grows one byte at a time: its capacity is the next power of two
    // (when the header announces more than the payload holds, the decoder goes on to
    // decode the coder's flush bytes as a few more symbols before it runs dry: the
    // production then exceeds the model's by up to a few matches)
    let produced_upto = if lying_size { need + 8 * 273 } else { need };
    let window = (m.min(produced_upto).max(8) as usize).next_power_of_two();
    let slack = 16 * 1024;
    ctx.stats.max(
        "max_heap_excess_over_table_and_window_bytes",
        peak.saturating_sub(table + window) as u64,
    );
    let bound = table + window + slack;
    ctx.stats.max("max_heap_peak_minus_table_bytes", peak.saturating_sub(table) as u64);
    if peak > bound {
        return mk(
            "buffers_more_than_limit",
            format!("heap peak {} bytes exceeds table {} + window capacity {} + slack {}", peak, table, window, slack),
        );
    }
    Vec::new()
}

pub static C10: SimpleProp = SimpleProp {
    id: "C10",
    level: "exploration",
    rule: "one evaluation = one pair (unlimited run, run with memlimit m) of a valid reference-encoded stream, m in {0, need-1, need, need+1, dict-1, dict, max, random, and values >= 2^32 whose low 32 bits are small} with need = min(dictionary, bytes produced), through lzma_decompress_with_options or Stream under a random history (each under all three header options), or the raw decoder (dictionary 1..5000; a third of these on a decoder object constructed for another size and re-targeted with reset, half of those with a first decompress call behind them); m >= need: identical verdict and bytes; m < need: Err and delivered bytes are a model prefix; heap peak of the limited run (metering allocator) <= literal table + next_power_of_two(max(min(m,need),8)) + 16 KiB; 1 run in 400 uses a window of 32-256 KiB that wraps at least once, where what is held while a full window is handed over becomes visible (only allocations made while library code runs are metered); a fifth of the header-carrying streams are re-headed to announce a 256 MiB-4 GiB dictionary (and, for size-bounded ones, a 1 GiB size); non-trivial = need > 0; distinct by scenario hash",
    runs_quick: 150_000,
    runs_thorough: 24_000_000,
    both_profiles: false,
    assumptions: &[
        "the window Vec grows bytewise, so its capacity is the next power of two of its length; 16 KiB slack (worst clean excess observed: about 4 KiB, see maxima) covers the boxed decoder state; the driver's own records are not metered",
        "valid streams only: for corrupted input 'bytes produced' is not observable from outside",
    ],
    gen,
    exec,
    enumerate: None,
};
