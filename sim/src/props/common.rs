//! Workload builders shared by the properties.

use crate::gen;
use crate::prng::Tape;
use crate::refmodel::codec::{Props, RefEnc, SymRec};
use crate::refmodel::container::*;
use crate::refmodel::lz::Sym;

pub struct LzmaBuilt {
    pub props: Props,
    pub dict_hdr: u32,
    pub dict: u64,
    /// range-coded bytes (5-byte preamble first)
    pub payload: Vec<u8>,
    pub expect: Vec<u8>,
    pub marker: bool,
    pub trace: Vec<SymRec>,
    pub ps: gen::ProgStats,
}

impl LzmaBuilt {
    /// `size_field`: None = 5-byte header
    pub fn file(&self, size_field: Option<u64>) -> Vec<u8> {
        let mut f = lzma_header(self.props, self.dict_hdr, size_field);
        f.extend_from_slice(&self.payload);
        f
    }
    /// standard 13-byte file: size field = all-ones if marker, else true size
    pub fn std_file(&self) -> Vec<u8> {
        self.file(Some(if self.marker {
            u64::MAX
        } else {
            self.expect.len() as u64
        }))
    }
    /// largest number of input bytes a single symbol needed
    pub fn max_symbol_bytes(&self) -> u32 {
        let mut prev = 5;
        let mut m = 0;
        for r in &self.trace {
            m = m.max(r.consumed - prev);
            prev = r.consumed;
        }
        m
    }
}

/// marker: 0 = draw, 1 = force marker, 2 = force no marker
/// Five bytes with which other container formats start and which are, read as an
/// LZMA header, a legal properties byte followed by a legal dictionary size.
pub const FOREIGN_MAGICS: [[u8; 5]; 9] = [
    *b"LZIP\x01",
    [0x1F, 0x8B, 0x08, 0x00, 0x00],
    *b"BZh91",
    [0x28, 0xB5, 0x2F, 0xFD, 0x24],
    [0x50, 0x4B, 0x03, 0x04, 0x14],
    [0x37, 0x7A, 0xBC, 0xAF, 0x27],
    [0x89, 0x50, 0x4E, 0x47, 0x0D],
    *b"<?xml",
    *b"Rar!\x1a",
];

pub fn gen_lzma(t: &mut Tape, marker: u64, max_target: u64) -> LzmaBuilt {
    let mut props = gen::draw_props(t, false);
    let (mut dict_hdr, mut dict) = gen::draw_dict_header(t);
    if t.below(40) == 0 {
        // a header that happens to spell another format's magic number
        let m = FOREIGN_MAGICS[t.below(FOREIGN_MAGICS.len() as u64) as usize];
        if let Some(p) = Props::from_byte(m[0]) {
            props = p;
            dict_hdr = u32::from_le_bytes([m[1], m[2], m[3], m[4]]);
            dict = (dict_hdr as u64).max(4096);
        }
    }
    let cfg = gen::draw_cfg(t);
    let target = gen::draw_target_len(t, dict).min(max_target);
    let mut enc = RefEnc::new(props, dict);
    let mut ps = gen::ProgStats::default();
    gen::gen_program(t, &cfg, &mut enc, target, 6000, &mut ps);
    let marker = match marker {
        1 => true,
        2 => false,
        _ => t.below(2) == 1,
    };
    if marker {
        enc.encode_end_marker();
    }
    let payload = enc.finish_segment();
    LzmaBuilt {
        props,
        dict_hdr,
        dict,
        payload,
        expect: std::mem::take(&mut enc.model.out),
        marker,
        trace: std::mem::take(&mut enc.trace),
        ps,
    }
}

/// Raw (header-less) LZMA stream for tiny dictionaries (1..=64) and friends.
pub fn gen_lzma_raw_dict(t: &mut Tape, dict: u64, marker: u64, max_target: u64) -> LzmaBuilt {
    let props = gen::draw_props(t, false);
    let cfg = gen::draw_cfg(t);
    let target = match t.below(4) {
        0 => t.range(0, 8),
        1 => dict * t.range(1, 6) + t.below(dict + 1),
        2 => t.range(1, 300),
        _ => dict + t.below(3),
    }
    .min(max_target);
    let mut enc = RefEnc::new(props, dict);
    let mut ps = gen::ProgStats::default();
    gen::gen_program(t, &cfg, &mut enc, target, 6000, &mut ps);
    let marker = match marker {
        1 => true,
        2 => false,
        _ => t.below(2) == 1,
    };
    if marker {
        enc.encode_end_marker();
    }
    let payload = enc.finish_segment();
    LzmaBuilt {
        props,
        dict_hdr: dict as u32,
        dict,
        payload,
        expect: std::mem::take(&mut enc.model.out),
        marker,
        trace: std::mem::take(&mut enc.trace),
        ps,
    }
}

pub struct Lzma2Built {
    pub ps: gen::ProgStats,
    pub bytes: Vec<u8>,
    pub expect: Vec<u8>,
    pub chunks: Vec<ChunkInfo>,
    pub trace: Vec<SymRec>,
    /// control-class sequence as a string for notes
    pub note: String,
}

/// Generate an LZMA2 stream of about `max_total` output bytes. With
/// `strict_order` only sequences xz and the LZMA SDK accept are produced.
pub fn gen_lzma2(t: &mut Tape, max_total: u64, strict_order: bool) -> Lzma2Built {
    let mut w = Lzma2Writer::new();
    let mut note = String::new();
    let mut n_chunks = match t.below(8) {
        0 => 0,
        1..=4 => t.range(1, 4),
        5 | 6 => t.range(2, 9),
        _ => 1,
    };
    // now and then: very many tiny chunks (anything that counts chunks)
    let tiny = max_total >= 500 && t.below(48) == 0;
    if tiny {
        n_chunks = [100u64, 255, 256, 257, 300][t.below(5) as usize];
    }
    let mut need_dict_reset = true;
    let mut props_set = false;
    let mut abandoned = false;
    let mut total = 0u64;
    let cfg = gen::draw_cfg(t);
    let mut ps = gen::ProgStats::default();
    for _ in 0..n_chunks {
        if total >= max_total {
            break;
        }
        let room = max_total - total;
        let want_raw = t.below(3) == 0;
        if want_raw {
            let reset = if need_dict_reset && strict_order {
                true
            } else {
                t.below(3) == 0
            };
            let n = match if tiny { 1 } else { t.below(8) } {
                0 => 1,
                1 => t.range(1, 5),
                7 if room >= 0x10000 && t.below(16) == 0 => 0x10000,
                4..=6 if max_total > 100_000 && room >= 0x10000 => [0x10000u64, 0xFFFF, 0x8000][t.below(3) as usize],
                _ => t.range(1, 200),
            }
            .min(room.max(1))
            .min(0x10000) as usize;
            let data = match t.below(3) {
                0 => vec![t.byte(); n],
                _ => gen::draw_bytes(t, n.min(64))
                    .into_iter()
                    .cycle()
                    .take(n)
                    .collect::<Vec<u8>>(),
            };
            w.raw_chunk(reset, &data);
            if reset {
                need_dict_reset = false;
                // xz / LZMA SDK: a dictionary reset obliges the next LZMA chunk
                // to carry new properties
                props_set = false;
            }
            total += n as u64;
            note.push_str(if reset { "U1 " } else { "U2 " });
        } else {
            let mut reset = t.below(4) as u8;
            if strict_order {
                if need_dict_reset {
                    reset = 3;
                } else if !props_set && reset < 2 {
                    reset = 2;
                }
            }
            let new_props = if reset >= 2 {
                Some(gen::draw_props(t, true))
            } else {
                None
            };
            let ts = w.enc.trace.len();
            w.begin_lzma_chunk(reset, new_props);
            ps.chunk_start_avail = w.enc.model.avail() as u64;
            let target = match if tiny { 1 } else { t.below(10) } {
                0 => 1,
                1 => t.range(1, 4),
                // a random program long enough for the longest matches (273) to fit,
                // also from sources that lie entirely in older data
                2 => t.range(250, 4000),
                9 if room > 100_000 && t.below(8) == 0 => t.range(70_000, room.min(1 << 21)),
                5..=8 if max_total > 100_000 && room > 100_000 => {
                    if t.below(4) == 0 {
                        room.min(1 << 21)
                    } else {
                        t.range(65_000, room.min(1 << 21))
                    }
                }
                _ => t.range(1, 250),
            }
            .min(room.max(1));
            if max_total > 100_000 && room > 70_000 && t.below(8) == 0 {
                // incompressible chunk: packed size close to the 64 KiB field limit
                // a third of them: exactly the largest packed size the field can express
                // (65536 bytes, field 0xFFFF): literals up to a few bytes short, then
                // cheap repeats (at most one byte each) until the size is hit
                let exact_max = t.below(3) == 0;
                let n = if exact_max { 80_000 } else { t.range(58_000, 63_500) };
                let stop = if exact_max { 65_526 } else { 65_500 };
                let mut r = crate::prng::Xoshiro::new(t.u64());
                if exact_max {
                    let _ = w.enc.encode(Sym::Lit(r.next() as u8));
                    let _ = w.enc.encode(Sym::Match { dist: 1, len: 2 });
                }
                for _ in 0..n {
                    let _ = w.enc.encode(Sym::Lit(r.next() as u8));
                    if w.enc.consumed() > stop {
                        break;
                    }
                }
                if exact_max {
                    let _ = w.enc.encode(Sym::Match { dist: 1, len: 2 });
                    let mut guard = 0;
                    while w.enc.consumed() < 65_536 && guard < 200 {
                        let _ = w.enc.encode(Sym::Rep { idx: 0, len: 2 });
                        guard += 1;
                    }
                }
            } else if target > 10_000 {
                // long-run chunk: cheap symbols so that the packed size stays small
                let b = t.byte();
                let _ = w.enc.encode(Sym::Lit(b));
                // bursts of literals in between (decided by a local generator so that the
                // tape stays short): the literal contexts keep being used all along
                let mut lr = crate::prng::Xoshiro::new(t.u64());
                let bursts = t.below(3) != 0;
                while (w.enc.model.out.len() as u64) < w_start(&w) + target {
                    let left = w_start(&w) + target - w.enc.model.out.len() as u64;
                    let len = left.min(273);
                    if bursts && left > 8 && lr.next() % 16 == 0 {
                        for _ in 0..1 + lr.next() % 3 {
                            let _ = w.enc.encode(Sym::Lit(lr.next() as u8));
                        }
                        continue;
                    }
                    if len < 2 {
                        let _ = w.enc.encode(Sym::Lit(b));
                    } else {
                        let _ = w.enc.encode(Sym::Match {
                            dist: 1,
                            len: len as u32,
                        });
                    }
                }
            } else {
                gen::gen_program(t, &cfg, &mut w.enc, target, 6000, &mut ps);
                if w.enc.model.out.len() as u64 == w_start(&w) {
                    let _ = w.enc.encode(Sym::Lit(t.byte()));
                }
            }
            let before = w.enc.model.out.len();
            if !w.end_lzma_chunk(reset, ts) {
                // could not be framed (payload above 64 KiB: the aimed-at-the-maximum
                // chunk overshot by a byte): drop that chunk and stop here
                let _ = before;
                w.abandon_chunk();
                abandoned = true;
                break;
            }
            if reset == 3 {
                need_dict_reset = false;
            }
            if reset >= 2 {
                props_set = true;
            }
            total = w.enc.model.out.len() as u64;
            note.push_str(["L0 ", "L1 ", "L2 ", "L3 "][reset as usize]);
        }
    }
    // now and then: a trained pair — an LZMA chunk that repeats one match until
    // its probabilities saturate, followed by a no-reset chunk repeating it a
    // few more times: that second chunk's payload is just the 5-byte range-coder
    // preamble (the smallest legal compressed size)
    if !abandoned && total + 20_000 < max_total.max(30_000) && t.below(10) == 0 {
        let reset: u8 = if need_dict_reset { 3 } else if props_set { t.below(4) as u8 } else { 2 + t.below(2) as u8 };
        let newp = if reset >= 2 { Some(gen::draw_props(t, true)) } else { None };
        let ts = w.enc.trace.len();
        w.begin_lzma_chunk(reset, newp);
        let b = t.byte();
        let _ = w.enc.encode(Sym::Lit(b));
        let len = [2u32, 3, 8, 18, 273][t.below(5) as usize];
        let n = t.range(80, 160);
        for _ in 0..n {
            if w.enc.model.out.len() as u64 - w_start(&w) + len as u64 > 60_000 {
                break;
            }
            let _ = w.enc.encode(Sym::Match { dist: 1, len });
        }
        if w.end_lzma_chunk(reset, ts) {
            note.push_str(["L0t ", "L1t ", "L2t ", "L3t "][reset as usize]);
            let ts = w.enc.trace.len();
            w.begin_lzma_chunk(0, None);
            for _ in 0..t.range(1, 3) {
                let _ = w.enc.encode(Sym::Match { dist: 1, len });
            }
            if w.end_lzma_chunk(0, ts) {
                note.push_str("L0e ");
            }
        }
    }
    w.end();
    Lzma2Built {
        ps,
        bytes: std::mem::take(&mut w.bytes),
        expect: std::mem::take(&mut w.enc.model.out),
        chunks: std::mem::take(&mut w.chunks),
        trace: std::mem::take(&mut w.enc.trace),
        note,
    }
}

/// LZMA2 stream of 1-2 LZMA chunks whose unpacked sizes sit on the boundaries of
/// the 5+16-bit size field: 65536*h + d (h 1..3, d in {-1, 0, 0, +1}), built from
/// cheap long matches so that the payload stays small.
pub fn gen_lzma2_size_boundary(t: &mut Tape) -> Lzma2Built {
    let mut w = Lzma2Writer::new();
    let mut note = String::new();
    let n = t.range(1, 2);
    for i in 0..n {
        // mostly 64-192 KiB; 1 in 8 the top of the field (2 MiB class, control 0x?F/0xFF)
        let top = i == 0 && t.below(8) == 0;
        let h = if top { [31u64, 32][t.below(2) as usize] } else { t.range(1, 3) };
        let target = ((h * 65536) as i64 + [0i64, 0, -1, 1][t.below(4) as usize]).min(1 << 21);
        let reset: u8 = if i == 0 { 3 } else { t.below(4) as u8 };
        let newp = if reset >= 2 { Some(gen::draw_props(t, true)) } else { None };
        let ts = w.enc.trace.len();
        let start = w_start(&w);
        w.begin_lzma_chunk(reset, newp);
        let b = t.byte();
        let _ = w.enc.encode(Sym::Lit(b));
        let _ = w.enc.encode(Sym::Lit(b.wrapping_add(1)));
        let dist = t.range(1, 2) as u32;
        while (w.enc.model.out.len() as u64) < start + target as u64 {
            let left = start + target as u64 - w.enc.model.out.len() as u64;
            let len = left.min(273);
            if len < 2 {
                let _ = w.enc.encode(Sym::Lit(b));
            } else {
                let _ = w.enc.encode(Sym::Match { dist, len: len as u32 });
            }
        }
        if !w.end_lzma_chunk(reset, ts) {
            w.abandon_chunk();
            break;
        }
        note.push_str(&format!("L{}[{}] ", reset, target));
    }
    w.end();
    Lzma2Built {
        ps: gen::ProgStats::default(),
        bytes: std::mem::take(&mut w.bytes),
        expect: std::mem::take(&mut w.enc.model.out),
        chunks: std::mem::take(&mut w.chunks),
        trace: std::mem::take(&mut w.enc.trace),
        note,
    }
}

/// Two cheap long chunks (2 MiB and 70 KB - 1 MiB) with literal bursts: a block
/// of more than 2 MiB, whose sizes need four-byte integers in the container.
pub fn gen_lzma2_huge(t: &mut Tape) -> Lzma2Built {
    let mut w = Lzma2Writer::new();
    let mut note = String::new();
    let mut lr = crate::prng::Xoshiro::new(t.u64());
    for i in 0..2 {
        let target = if i == 0 { (1u64 << 21) - t.below(2) } else { t.range(70_000, 1 << 20) };
        let reset: u8 = if i == 0 { 3 } else { t.below(4) as u8 };
        let newp = if reset >= 2 { Some(gen::draw_props(t, true)) } else { None };
        let ts = w.enc.trace.len();
        let start = w_start(&w);
        w.begin_lzma_chunk(reset, newp);
        let b = t.byte();
        let _ = w.enc.encode(Sym::Lit(b));
        while (w.enc.model.out.len() as u64) < start + target {
            let left = start + target - w.enc.model.out.len() as u64;
            if left > 8 && lr.next() % 16 == 0 {
                let _ = w.enc.encode(Sym::Lit(lr.next() as u8));
                continue;
            }
            if left < 2 {
                let _ = w.enc.encode(Sym::Lit(b));
            } else {
                let _ = w.enc.encode(Sym::Match { dist: 1 + (lr.next() % 3) as u32 % (w.enc.model.avail().max(1) as u32), len: left.min(273) as u32 });
            }
        }
        if !w.end_lzma_chunk(reset, ts) {
            w.abandon_chunk();
            break;
        }
        note.push_str(&format!("L{}[{}] ", reset, target));
    }
    w.end();
    Lzma2Built {
        ps: gen::ProgStats::default(),
        bytes: std::mem::take(&mut w.bytes),
        expect: std::mem::take(&mut w.enc.model.out),
        chunks: std::mem::take(&mut w.chunks),
        trace: std::mem::take(&mut w.enc.trace),
        note,
    }
}

fn w_start(w: &Lzma2Writer) -> u64 {
    // output length at the start of the chunk being built
    w.chunks
        .iter()
        .map(|c| c.unpacked_len as u64)
        .sum::<u64>()
}

/// XZ plan within the supported subset.
pub fn gen_xz_plan(t: &mut Tape, max_block: u64) -> XzPlan {
    let check_id = [0u8, 1, 4][t.below(3) as usize];
    let nblocks = match t.below(8) {
        0 => 0,
        1..=5 => 1,
        6 => 2,
        _ => t.range(2, 6),
    };
    // now and then: enough blocks for the index's record count to need two bytes
    // (rarely three: 16384 and more)
    let many = t.below(if max_block >= 100_000 { 8 } else { 40 }) == 0;
    let nblocks = if many {
        if max_block >= 100_000 && t.below(3) == 0 {
            [16_383u64, 16_384, 16_385][t.below(3) as usize]
        } else {
            [127u64, 128, 129, 200][t.below(4) as usize]
        }
    } else {
        nblocks
    };
    let max_block = if many { max_block.min(6) } else { max_block };
    let mut blocks = Vec::new();
    for _ in 0..nblocks {
        let b = if max_block >= 100_000 && t.below(16) == 0 {
            // a block of 2-3 MiB: its sizes need four-byte integers
            gen_lzma2_huge(t)
        } else if max_block >= 500 && t.below(12) == 0 {
            gen_lzma2_medium(t)
        } else {
            gen_lzma2(t, max_block, true)
        };
        blocks.push(BlockPlan {
            payload: b.bytes,
            content: b.expect,
            has_csize: t.below(2) == 1,
            has_usize: t.below(2) == 1,
            extra_pad4: match t.below(8) {
                0 => t.range(1, 4) as u32,
                1 if t.below(8) == 0 => 255,
                _ => 0,
            },
            filters: vec![(0x21, vec![t.below(41) as u8])],
            ..Default::default()
        });
    }
    XzPlan {
        check_id,
        blocks,
        ..Default::default()
    }
}

/// Decode an ops list description for notes.
pub fn ops_note(ops: &[u64]) -> String {
    let mut s = String::new();
    for p in ops.chunks(2) {
        let name = match p[0] {
            0 => "write",
            1 => "flush",
            2 => "peek",
            3 => "finish",
            4 => "write_all",
            5 => "write_n",
            6 => "peek_mut",
            7 => "debug",
            _ => "?",
        };
        s.push_str(&format!("{}({}) ", name, p.get(1).unwrap_or(&0)));
    }
    s
}

/// Adversarial "train-then-surprise" stream: hundreds of matches train every
/// node on the path of one final match *against* it (deepest node first, so
/// that each node's most recent updates are the adverse ones); the final match
/// then needs 10-16 input bytes on its own — the regime the streaming decoder's
/// 20-byte look-ahead exists for. Always size-bounded or marker per `marker`.
pub fn gen_long_symbol(t: &mut Tape, marker: u64) -> LzmaBuilt {
    let props = gen::draw_props(t, false);
    let dict_hdr: u32 = [0x0010_0000u32, 0x0080_0000, 0xFFFF_FFFF, 0x0002_0000][t.below(4) as usize];
    let dict = dict_hdr as u64;
    let mut enc = RefEnc::new(props, dict);
    let mut ps = gen::ProgStats::default();
    // the surprise
    let hi_b = t.below(256) as u32; // len - 18
    let slot_b = 24 + t.below(4) as u32; // d in [4096, 16383]
    let nd_b = (slot_b >> 1) - 1;
    let base_b = (2 | (slot_b & 1)) << nd_b;
    let rem_b = t.below(1u64 << nd_b) as u32;
    let d_b = base_b + rem_b; // distance - 1
    let align_b = d_b & 15;
    let reps = t.range(50, 150);
    // some literals first so that short distances are legal
    let n0 = t.range(150, 400);
    for _ in 0..n0 {
        let s = Sym::Lit(t.byte());
        ps.note(s, &enc.model, enc.state);
        let _ = enc.encode(s);
    }
    for phase in 0..8u32 {
        let i = 7 - phase; // len-tree depth trained against
        let j = [5u32, 4, 3, 2, 1, 1, 1, 1][phase as usize]; // slot-tree depth
        let k = [3u32, 2, 1, 0, 0, 0, 0, 0][phase as usize]; // align depth (coded order)
        for _ in 0..reps {
            // length: share the top i bits with B, flip bit (7-i), low bits zero
            let keep = if i == 0 { 0 } else { hi_b >> (8 - i) << (8 - i) };
            let flip = ((hi_b >> (7 - i)) & 1) ^ 1;
            let hi_t = keep | (flip << (7 - i));
            let len_t = (hi_t & 0xFF) + 18;
            // slot: share the top j bits, flip bit (5-j), low bits: prefer >= 14
            let keep_s = slot_b >> (6 - j) << (6 - j);
            let flip_s = ((slot_b >> (5 - j)) & 1) ^ 1;
            let mut slot_t = keep_s | (flip_s << (5 - j));
            if slot_t < 14 {
                slot_t |= 14 & ((1 << (5 - j)) - 1).max(0);
                if slot_t < 14 {
                    slot_t = 14 + (slot_t & 1);
                }
            }
            let nd_t = (slot_t >> 1) - 1;
            let base_t = (2 | (slot_t & 1)) << nd_t;
            // align: share the first k coded bits (low bits), flip bit k
            let mask = (1u32 << k) - 1;
            let al_t = (align_b & mask) | ((((align_b >> k) & 1) ^ 1) << k);
            let mut d_t = base_t | al_t;
            let avail = enc.model.avail() as u64;
            if (d_t as u64 + 1) > avail {
                // not yet legal: use a short distance instead (trains other slots)
                d_t = (avail.saturating_sub(1)).min(100) as u32;
            }
            let s = Sym::Match {
                dist: d_t + 1,
                len: len_t,
            };
            if enc.model.legal(s) {
                ps.note(s, &enc.model, enc.state);
                let _ = enc.encode(s);
            }
            // a few literals so that the surprise arrives in a literal-trained state
            if t.below(3) == 0 {
                let s = Sym::Lit(t.byte());
                ps.note(s, &enc.model, enc.state);
                let _ = enc.encode(s);
            }
        }
    }
    for _ in 0..t.below(5) {
        let s = Sym::Lit(t.byte());
        ps.note(s, &enc.model, enc.state);
        let _ = enc.encode(s);
    }
    let b = Sym::Match {
        dist: d_b + 1,
        len: hi_b + 18,
    };
    if enc.model.legal(b) {
        ps.note(b, &enc.model, enc.state);
        let _ = enc.encode(b);
    }
    for _ in 0..t.below(4) {
        let s = Sym::Lit(t.byte());
        ps.note(s, &enc.model, enc.state);
        let _ = enc.encode(s);
    }
    let marker = match marker {
        1 => true,
        2 => false,
        _ => t.below(2) == 1,
    };
    if marker {
        enc.encode_end_marker();
    }
    let payload = enc.finish_segment();
    LzmaBuilt {
        props,
        dict_hdr,
        dict,
        payload,
        expect: std::mem::take(&mut enc.model.out),
        marker,
        trace: std::mem::take(&mut enc.trace),
        ps,
    }
}

/// Adversarial end marker: the marker is a match with distance 2^32 whose
/// length is free, so it can use the 8-bit "high" length tree, the 6-bit slot
/// tree (slot 63), 26 direct bits and the 4-bit align tree. Every node on that
/// path is first trained against it (deepest first); the marker then needs
/// 15-18 input bytes — close to the 20-byte bound the streaming decoder's
/// look-ahead is dimensioned for. pb = 0 so that one context collects all the
/// training. Needs an output above 64 KiB (slot >= 32 for the second slot node).
pub fn gen_long_marker(t: &mut Tape) -> LzmaBuilt {
    let mut props = gen::draw_props(t, false);
    props.pb = 0;
    let dict_hdr: u32 = [0x0010_0000u32, 0x0080_0000, 0xFFFF_FFFF][t.below(3) as usize];
    let dict = dict_hdr as u64;
    let mut enc = RefEnc::new(props, dict);
    let mut ps = gen::ProgStats::default();
    let hi_b = t.below(256) as u32; // marker length - 18
    let reps = t.range(160, 280);
    let mut put = |enc: &mut RefEnc, ps: &mut gen::ProgStats, s: Sym| {
        if enc.model.legal(s) {
            ps.note(s, &enc.model, enc.state);
            let _ = enc.encode(s);
            true
        } else {
            false
        }
    };
    for _ in 0..t.range(200, 400) {
        let b = t.byte();
        put(&mut enc, &mut ps, Sym::Lit(b));
    }
    // phases 0..8: the high length tree, deepest node first. These long matches
    // also grow the output beyond 64 KiB. Their slot is < 32 (first slot node
    // trained against "1"), their align bits are the complement pattern of 1111
    // at the depth of the phase.
    for phase in 0..8u32 {
        let i = 7 - phase;
        let k = [3u32, 2, 1, 0, 0, 0, 0, 0][phase as usize];
        for _ in 0..reps {
            let keep = if i == 0 { 0 } else { hi_b >> (8 - i) << (8 - i) };
            let flip = ((hi_b >> (7 - i)) & 1) ^ 1;
            // low bits all ones: long copies, so the output grows quickly
            let low = (1u32 << (7 - i)) - 1;
            let len_t = ((keep | (flip << (7 - i)) | low) & 0xFF) + 18;
            let mask = (1u32 << k) - 1;
            let al_t = (0xF & mask) | (((1 ^ 1) & 1) << k); // bits below k are ones, bit k is zero
            let slot_t = 14 + 2 * t.below(6) as u32; // 14..24, even
            let nd = (slot_t >> 1) - 1;
            let base = (2 | (slot_t & 1)) << nd;
            let mut d_t = base | al_t;
            let avail = enc.model.avail() as u64;
            if d_t as u64 + 1 > avail {
                d_t = avail.saturating_sub(1).min(200) as u32;
            }
            put(
                &mut enc,
                &mut ps,
                Sym::Match {
                    dist: d_t + 1,
                    len: len_t,
                },
            );
        }
    }
    // make sure slot 32 (distance 65537) is legal
    while (enc.model.avail() as u64) < 66_000 {
        put(&mut enc, &mut ps, Sym::Match { dist: 1, len: 273 });
    }
    // second slot node (path "1" then "1"): train with slots 32..47 = "10xxxx".
    // Length with the top high-tree bit flipped, so that only the already
    // handled root of the length tree is touched on the marker's path.
    let top_flipped = (((hi_b >> 7) & 1) ^ 1) << 7;
    for _ in 0..reps {
        let d_t: u32 = 65536 + (t.below(4) as u32) * 16 + 0; // slot 32, align 0000
        put(
            &mut enc,
            &mut ps,
            Sym::Match {
                dist: d_t + 1,
                len: (top_flipped | 0x7F) + 18,
            },
        );
    }
    // first slot node: slots < 32 (any short distance), length as above
    for _ in 0..reps {
        put(
            &mut enc,
            &mut ps,
            Sym::Match {
                // distance - 1 < 128: slot < 14, so the align tree is not touched
                dist: 40 + t.below(50) as u32,
                len: (top_flipped | 0x7F) + 18,
            },
        );
    }
    // choice2 (mid lengths 10..17 take "choice=1, choice2=0"), then choice
    // (short lengths take "choice=0"); slot < 14 so align is not touched, first
    // slot bit 0 (against the marker)
    for _ in 0..reps {
        put(&mut enc, &mut ps, Sym::Match { dist: 3, len: 10 + t.below(8) as u32 });
    }
    for _ in 0..reps {
        put(&mut enc, &mut ps, Sym::Match { dist: 3, len: 5 + t.below(5) as u32 });
    }
    // finally is_rep (towards "rep") and is_match (towards "literal") in the
    // state the marker will be coded in: a run of literals ends in state 0
    for _ in 0..reps {
        for _ in 0..t.range(6, 12) {
            let b = t.byte();
            put(&mut enc, &mut ps, Sym::Lit(b));
        }
        put(&mut enc, &mut ps, Sym::Rep { idx: 0, len: 2 });
    }
    for _ in 0..t.range(4, 10) {
        let b = t.byte();
        put(&mut enc, &mut ps, Sym::Lit(b));
    }
    if std::env::var("LZSIM_DEBUG_MARKER").is_ok() {
        eprintln!("{:?}", enc.marker_cost(hi_b + 18));
    }
    enc.encode_end_marker_len(hi_b + 18);
    let payload = enc.finish_segment();
    LzmaBuilt {
        props,
        dict_hdr,
        dict,
        payload,
        expect: std::mem::take(&mut enc.model.out),
        marker: true,
        trace: std::mem::take(&mut enc.trace),
        ps,
    }
}

/// One of the two adversarial long-symbol streams.
pub fn gen_long(t: &mut Tape, marker: u64) -> LzmaBuilt {
    if marker != 2 && t.below(2) == 1 {
        gen_long_marker(t)
    } else {
        gen_long_symbol(t, marker)
    }
}

/// A block of 16 KiB .. 200 KB built from uncompressed chunks (cheap), with
/// sizes biased to the values whose multi-byte integer encoding has an all-zero
/// 7-bit group in the middle (16384+d, 32768+d, 65536+d, d < 128): sizes of
/// three-byte integers in the block header and the index.
pub fn gen_lzma2_medium(t: &mut Tape) -> Lzma2Built {
    let u = match t.below(5) {
        0 => 16384 + t.below(128),
        1 => 32768 + t.below(128),
        2 => 65536 + t.below(128),
        3 => 16384 - 20 + t.below(40),
        _ => t.range(16384, 200_000),
    } as usize;
    let mut w = Lzma2Writer::new();
    let seed = t.byte();
    let mut left = u;
    let mut first = true;
    let mut note = String::new();
    while left > 0 {
        let n = match t.below(3) {
            0 => left.min(0x10000),
            1 => left.min(t.range(1, 0x10000) as usize),
            _ => left.min(0x8000),
        };
        let base = w.out_len();
        let data: Vec<u8> = (0..n).map(|i| ((base + i) as u8).wrapping_mul(31).wrapping_add(seed)).collect();
        w.raw_chunk(first, &data);
        note.push_str(if first { "U1 " } else { "U2 " });
        first = false;
        left -= n;
    }
    w.end();
    Lzma2Built {
        ps: gen::ProgStats::default(),
        bytes: std::mem::take(&mut w.bytes),
        expect: std::mem::take(&mut w.enc.model.out),
        chunks: std::mem::take(&mut w.chunks),
        trace: Vec::new(),
        note,
    }
}

/// Rebuild the match-heavy stream a 'large' scenario describes by a few numbers
/// (props, dict, total, prefix, rng, marker): (props, payload, expected output,
/// number of far matches).
pub fn build_large_stream(sc: &crate::scenario::Scenario) -> (crate::refmodel::codec::Props, Vec<u8>, Vec<u8>, u64) {
    use crate::refmodel::codec::Props;
    let pl = sc.l("props");
    let props = Props { lc: pl[0] as u32, lp: pl[1] as u32, pb: pl[2] as u32 };
    let dict = sc.i("dict");
    let total = sc.i("total") as usize;
    let mut r = crate::prng::Xoshiro::new(sc.i("rng"));
    let mut enc = RefEnc::new(props, dict);
    let prefix = (sc.i("prefix") as usize).min(total);
    for _ in 0..prefix {
        let _ = enc.encode(Sym::Lit(r.next() as u8));
    }
    let mut far = 0u64;
    while enc.model.out.len() < total {
        let left = total - enc.model.out.len();
        let avail = (enc.model.out.len() as u64).min(dict);
        let roll = r.next() % 512;
        let len = if left >= 273 && roll % 4 != 0 { 273 } else { (2 + r.next() % 272).min(left as u64) };
        let s = if left < 2 || roll == 0 {
            Sym::Lit(r.next() as u8)
        } else if roll < 6 {
            // reaches back as far as the dictionary (or everything produced) allows
            far += 1;
            Sym::Match { dist: (avail - (r.next() % 3).min(avail - 1)) as u32, len: len as u32 }
        } else if roll < 12 {
            far += 1;
            Sym::Match { dist: (1 + r.next() % avail) as u32, len: len as u32 }
        } else if roll < 40 {
            Sym::Rep { idx: (r.next() % 4) as u8, len: len as u32 }
        } else {
            Sym::Match { dist: (1 + r.next() % (prefix as u64).min(avail)) as u32, len: len as u32 }
        };
        if enc.encode(s).is_err() {
            let _ = enc.encode(Sym::Lit(r.next() as u8));
        }
    }
    let marker = sc.i("marker") == 1;
    if marker {
        enc.encode_end_marker();
    }
    let payload = enc.finish_segment();
    let expect = std::mem::take(&mut enc.model.out);
    (props, payload, expect, far)
}
