//! C06 — XZ integrity: success implies every check passed; no silent
//! corruption. Stored-data faults: every bit flip, every truncation point, and
//! every integrity/size field replaced by other values with the enclosing CRCs
//! recomputed so that only the field's own validation can object.

use super::common::*;
use crate::drive::*;
use crate::prng::Tape;
use crate::refmodel::container::*;
use crate::runner::{Ctx, Property, Tier};
use crate::scenario::{Scenario, Violation};

pub struct C06;

fn u64_values(t: &mut Tape, truth: u64) -> Vec<u64> {
    let mut v = vec![
        0,
        1,
        truth.wrapping_sub(1),
        truth + 1,
        truth + 4,
        truth + (1 << 30),
        truth + (1 << 32),
        1 << 31,
        0xFFFF_FFFF,
        (1 << 63) - 1,
        t.u64() >> 1,
        t.below(4096),
    ];
    // the true value with two equal 7-bit groups flipped in (stored integers come in
    // 7-bit groups; a decoder that lets two groups overlap cancels them out)
    {
        let i = t.range(0, 7);
        let j = t.range(i + 1, 8);
        let p7 = t.range(1, 0x7F);
        v.push(truth ^ (p7 << (7 * i)) ^ (p7 << (7 * j)));
    }
    v.retain(|x| *x != truth && *x < (1 << 63));
    v.sort();
    v.dedup();
    v
}

/// (plan, field, note)
pub fn field_variants(t: &mut Tape, plan: &XzPlan) -> Vec<(XzPlan, &'static str, String)> {
    let mut v: Vec<(XzPlan, &'static str, String)> = Vec::new();
    let built = build_xz(plan);
    let field = |name: &str| built.fields.iter().find(|f| f.name == name).cloned();
    // magic bytes
    for i in 0..6 {
        let mut p = plan.clone();
        let mut m = [0xFD, 0x37, 0x7A, 0x58, 0x5A, 0x00];
        m[i] ^= 1 << t.below(8);
        p.ov_magic = Some(m);
        v.push((p, "header.magic", format!("magic byte {} changed", i)));
    }
    for i in 0..2 {
        let mut p = plan.clone();
        let mut m = [0x59u8, 0x5A];
        m[i] ^= 1 << t.below(8);
        p.ov_fmagic = Some(m);
        v.push((p, "footer.magic", format!("footer magic byte {} changed", i)));
    }
    // stream flags: header and footer disagree (each side individually valid)
    for other in [0u8, 1, 4] {
        if other != plan.check_id && check_size(other) == check_size(plan.check_id) {
            let mut p = plan.clone();
            p.ov_fflags = Some([0, other]);
            v.push((p, "footer.flags", format!("footer flags say check {} (header {})", other, plan.check_id)));
        }
    }
    for other in [0u8, 1, 4] {
        if other != plan.check_id {
            let mut p = plan.clone();
            p.ov_fflags = Some([0, other]);
            v.push((p, "footer.flags", format!("footer flags say check {} (header {})", other, plan.check_id)));
        }
    }
    // reserved upper bits in one side's flags only (the low nibble still names the
    // real check): header and footer then differ although both "mean" the same
    for hi in [0x10u8, 0x20, 0x40, 0x80, 0xF0] {
        let mut p = plan.clone();
        p.ov_hflags = Some([0, plan.check_id | hi]);
        p.ov_fflags = Some([0, plan.check_id]);
        v.push((p, "footer.flags", format!("header flags 00 {:02x}, footer flags 00 {:02x}", plan.check_id | hi, plan.check_id)));
        let mut p = plan.clone();
        p.ov_fflags = Some([0, plan.check_id | hi]);
        v.push((p, "footer.flags", format!("header flags 00 {:02x}, footer flags 00 {:02x}", plan.check_id, plan.check_id | hi)));
    }
    for b0 in [1u8, 0x80] {
        let mut p = plan.clone();
        p.ov_fflags = Some([b0, plan.check_id]);
        v.push((p, "footer.flags", format!("footer flags {:02x} {:02x}", b0, plan.check_id)));
    }
    // the same in the header only (the header's own CRC32 covers the byte as
    // written; the footer carries the regular flags)
    for b0 in [1u8, 0x80, 1 + t.below(255) as u8] {
        let mut p = plan.clone();
        p.ov_hflags = Some([b0, plan.check_id]);
        p.ov_fflags = Some([0, plan.check_id]);
        v.push((p, "header.flags", format!("header flags {:02x} {:02x}, footer flags 00 {:02x}", b0, plan.check_id, plan.check_id)));
    }
    // CRC fields themselves
    let crcs: [(&'static str, fn(&mut XzPlan, u32)); 3] = [
        ("header.crc32", |p, x| p.ov_hcrc = Some(x)),
        ("index.crc32", |p, x| p.ov_index_crc = Some(x)),
        ("footer.crc32", |p, x| p.ov_fcrc = Some(x)),
    ];
    for (name, set) in crcs {
        if let Some(f) = field(name) {
            let truth = u32::from_le_bytes([
                built.bytes[f.off],
                built.bytes[f.off + 1],
                built.bytes[f.off + 2],
                built.bytes[f.off + 3],
            ]);
            for x in [truth.wrapping_add(1), truth ^ 0x8000_0000, 0, !truth, t.u64() as u32] {
                if x != truth {
                    let mut p = plan.clone();
                    set(&mut p, x);
                    v.push((p, name, format!("{} 0x{:08x} -> 0x{:08x}", name, truth, x)));
                }
            }
        }
    }
    // backward size
    if let Some(f) = field("footer.backward") {
        let truth = u32::from_le_bytes([
            built.bytes[f.off],
            built.bytes[f.off + 1],
            built.bytes[f.off + 2],
            built.bytes[f.off + 3],
        ]);
        for x in [
            0u32,
            1,
            truth.wrapping_sub(1),
            truth.wrapping_add(1),
            truth.wrapping_add(1 << 30),
            truth.wrapping_add(2 << 30),
            truth.wrapping_add(3 << 30),
            1 << 31,
            0xFFFF_FFFF,
            0x3FFF_FFFF,
            0x7FFF_FFFF,
            t.u64() as u32,
        ] {
            if x != truth {
                let mut p = plan.clone();
                p.ov_backward = Some(x);
                v.push((p, "footer.backward", format!("backward size {} -> {}", truth, x)));
            }
        }
    }
    // index
    let n = plan.blocks.len() as u64;
    for x in u64_values(t, n) {
        let mut p = plan.clone();
        p.ov_index_count = Some(x);
        v.push((p, "index.count", format!("index record count {} -> {}", n, x)));
    }
    for delta in [-1i64, 1] {
        let m = n as i64 + delta;
        if m >= 0 {
            // really drop / add a record, count field consistent with the list
            let mut p = plan.clone();
            p.ov_index_records = Some(m as usize);
            v.push((p, "index.count", format!("index lists {} records for {} blocks", m, n)));
        }
    }
    // files with very many blocks: first, last and two others stand for the rest
    let nb = plan.blocks.len();
    let bis: Vec<usize> = if nb > 8 {
        let mut x = vec![0, nb - 1, 1 + t.below(nb as u64 - 2) as usize, 1 + t.below(nb as u64 - 2) as usize];
        x.sort();
        x.dedup();
        x
    } else {
        (0..nb).collect()
    };
    // integers spelt over-long (ten bytes): the nine legal groups carry the TRUE value,
    // the tenth adds a multiple of 2^63 - a decoder that shifts it out of 64 bits
    // reads the true value from a field that does not hold it
    {
        let mut names: Vec<String> = vec!["index.count".into()];
        for bi in 0..plan.blocks.len().min(3) {
            names.push(format!("index.rec{}.unpadded", bi));
            names.push(format!("index.rec{}.uncompressed", bi));
            if plan.blocks[bi].has_csize {
                names.push(format!("block{}.csize", bi));
            }
            if plan.blocks[bi].has_usize {
                names.push(format!("block{}.usize", bi));
            }
        }
        for name in names.iter() {
            for tenth in [0x02u8, 0x7E, 0x01] {
                let mut p = plan.clone();
                p.ov_overlong = Some((name.clone(), tenth));
                v.push((p, "vli.overlong", format!("{} written in ten bytes, tenth byte 0x{:02x}", name, tenth)));
            }
        }
        // the same integers with their TRUE value but not in the shortest form (one,
        // two or as many extra zero groups as nine bytes allow). The field still
        // agrees with the data: whatever the verdict is, it must not depend on
        // anything else (C13 takes these as inputs; here Ok is confirmed by the judge)
        for name in names.iter() {
            for extra in [1u8, 2, 8] {
                let mut p = plan.clone();
                p.ov_nonminimal = Some((name.clone(), extra));
                v.push((p, "vli.nonminimal", format!("{} written with {} superfluous zero group(s)", name, extra)));
            }
        }
    }
    // two index records wrong together so that the record count and both column
    // sums stay right: records swapped, or d bytes moved from one record to another
    if nb >= 2 {
        let rec = |bi: usize| -> (u64, u64) {
            let b = &plan.blocks[bi];
            let h = field(&format!("block{}.size_byte", bi)).unwrap();
            let pf = field(&format!("block{}.payload", bi)).unwrap();
            (((pf.off - h.off) + b.payload.len() + check_size(plan.check_id)) as u64, b.content.len() as u64)
        };
        let mut pairs = vec![(0usize, nb - 1)];
        if nb >= 3 {
            pairs.push((0, 1));
            pairs.push((nb - 2, nb - 1));
        }
        pairs.dedup();
        for (i, j) in pairs {
            let (ui, ci) = rec(i);
            let (uj, cj) = rec(j);
            if (ui, ci) != (uj, cj) {
                let mut p = plan.clone();
                p.ov_records.push((i, Some(uj), Some(cj)));
                p.ov_records.push((j, Some(ui), Some(ci)));
                v.push((p, "index.records_pair", format!("index records {} and {} swapped", i, j)));
            }
            for d in [1u64, 4] {
                if uj > d + 4 {
                    let mut p = plan.clone();
                    p.ov_records.push((i, Some(ui + d), None));
                    p.ov_records.push((j, Some(uj - d), None));
                    v.push((p, "index.records_pair", format!("{} bytes of unpadded size moved from record {} to record {}", d, j, i)));
                }
                if cj >= d {
                    let mut p = plan.clone();
                    p.ov_records.push((i, None, Some(ci + d)));
                    p.ov_records.push((j, None, Some(cj - d)));
                    v.push((p, "index.records_pair", format!("{} bytes of uncompressed size moved from record {} to record {}", d, j, i)));
                }
            }
        }
    }
    for bi in bis {
        let b = &plan.blocks[bi];
        let hdr_field = field(&format!("block{}.size_byte", bi)).unwrap();
        let pay_field = field(&format!("block{}.payload", bi)).unwrap();
        let hdr_len = pay_field.off - hdr_field.off;
        let unpadded = (hdr_len + b.payload.len() + check_size(plan.check_id)) as u64;
        for x in u64_values(t, unpadded) {
            let mut p = plan.clone();
            p.ov_records.push((bi, Some(x), None));
            v.push((p, "index.unpadded", format!("record {} unpadded size {} -> {}", bi, unpadded, x)));
        }
        let ulen = b.content.len() as u64;
        for x in u64_values(t, ulen) {
            let mut p = plan.clone();
            p.ov_records.push((bi, None, Some(x)));
            v.push((p, "index.uncompressed", format!("record {} uncompressed size {} -> {}", bi, ulen, x)));
        }
        if b.has_csize {
            for x in u64_values(t, b.payload.len() as u64) {
                let mut p = plan.clone();
                p.blocks[bi].ov_csize = Some(x);
                v.push((p, "block.csize", format!("block {} compressed size {} -> {}", bi, b.payload.len(), x)));
            }
        }
        // bytes between the LZMA2 end byte and the block padding, with a declared
        // compressed size (and padding, index record) that covers them consistently
        for k in [1usize, 3, 4, 9] {
            let mut p = plan.clone();
            p.blocks[bi].has_csize = true;
            let junk: Vec<u8> = (0..k).map(|_| t.byte()).collect();
            p.blocks[bi].payload.extend_from_slice(&junk);
            v.push((p, "block.csize", format!("block {}: {} byte(s) after the LZMA2 end byte, declared compressed size, padding and index consistent with them", bi, k)));
        }
        if b.has_usize {
            for x in u64_values(t, ulen) {
                let mut p = plan.clone();
                p.blocks[bi].ov_usize = Some(x);
                v.push((p, "block.usize", format!("block {} uncompressed size {} -> {}", bi, ulen, x)));
            }
        }
        // block header CRC
        if let Some(f) = field(&format!("block{}.header_crc32", bi)) {
            let truth = u32::from_le_bytes([
                built.bytes[f.off],
                built.bytes[f.off + 1],
                built.bytes[f.off + 2],
                built.bytes[f.off + 3],
            ]);
            for x in [truth.wrapping_add(1), !truth, 0] {
                if x != truth {
                    let mut p = plan.clone();
                    p.blocks[bi].ov_hcrc = Some(x);
                    v.push((p, "block.header_crc32", format!("block {} header CRC changed", bi)));
                }
            }
        }
        // header padding byte non-zero (CRC recomputed)
        if let Some(f) = field(&format!("block{}.header_pad", bi)) {
            for i in [0usize, f.len / 2, f.len - 1] {
                let mut p = plan.clone();
                p.blocks[bi].ov_hpad = Some((i, 1 + t.below(255) as u8));
                v.push((p, "block.header_pad", format!("block {} header padding byte {} non-zero", bi, i)));
            }
        }
        // several header padding bytes non-zero at once (equal, cancelling under xor
        // or sum), at a drawn place inside the padding
        if let Some(f) = field(&format!("block{}.header_pad", bi)) {
            if f.len >= 2 {
                let w = if f.len >= 3 && t.below(2) == 0 { 3 } else { 2 };
                let at = t.below((f.len - w + 1) as u64) as usize;
                for pad in multi_pads(t, w) {
                    let mut p = plan.clone();
                    let note = format!("block {} header padding bytes {:02x?} at padding offset {}", bi, pad, at);
                    p.blocks[bi].ov_hpads = Some((at, pad));
                    v.push((p, "block.header_pad", note));
                }
            }
        }
        // the LZMA2 filter's size-of-properties says 2..4 (the extra "properties" are
        // what has to be zero padding, zero or not)
        for k in [2u64, 3, 4] {
            for nz in [false, true] {
                let mut p = plan.clone();
                p.blocks[bi].ov_props_size = Some(k);
                p.blocks[bi].extra_pad4 = p.blocks[bi].extra_pad4.max(1);
                if nz {
                    p.blocks[bi].ov_hpad = Some((0, 1 + t.below(255) as u8));
                }
                v.push((p, "block.filter_props_size", format!("block {} LZMA2 size of properties {} ({} padding byte after the real one)", bi, k, if nz { "non-zero" } else { "zero" })));
            }
        }
        // size byte (CRC recomputed over the bytes as written)
        let sb = built.bytes[hdr_field.off];
        for x in [sb.wrapping_add(1), sb.wrapping_sub(1), 0xFF, 1] {
            if x != sb && x != 0 {
                let mut p = plan.clone();
                p.blocks[bi].ov_size_byte = Some(x);
                v.push((p, "block.size_byte", format!("block {} header size byte {} -> {}", bi, sb, x)));
            }
        }
        // block padding
        let padn = (4 - (hdr_len + b.payload.len()) % 4) % 4;
        if padn > 0 {
            for i in 0..padn {
                let mut pad = vec![0u8; padn];
                pad[i] = 1 + t.below(255) as u8;
                let mut p = plan.clone();
                p.blocks[bi].ov_bpad = Some(pad);
                v.push((p, "block.pad", format!("block {} padding byte {} non-zero", bi, i)));
            }
        }
        for pad in multi_pads(t, padn) {
            let mut p = plan.clone();
            let note = format!("block {} padding bytes {:02x?}", bi, pad);
            p.blocks[bi].ov_bpad = Some(pad);
            v.push((p, "block.pad", note));
        }
        {
            // padding of the wrong length (zeros)
            let mut p = plan.clone();
            p.blocks[bi].ov_bpad = Some(vec![0u8; (padn + 1) % 4 + if padn == 3 { 4 } else { 0 }]);
            v.push((p, "block.pad", format!("block {} padding has the wrong length", bi)));
        }
        // check field
        let cs = check_size(plan.check_id);
        if cs > 0 {
            let truth = check_value(plan.check_id, &b.content);
            let mut alts: Vec<Vec<u8>> = Vec::new();
            let mut a = truth.clone();
            a[0] ^= 1;
            alts.push(a);
            let mut a = truth.clone();
            a[cs - 1] ^= 0x80;
            alts.push(a);
            alts.push(vec![0u8; cs]);
            alts.push(check_value(plan.check_id, &[]));
            for a in alts {
                if a != truth {
                    let mut p = plan.clone();
                    p.blocks[bi].ov_check = Some(a);
                    v.push((p, "block.check", format!("block {} check field changed", bi)));
                }
            }
        }
    }
    // zero bytes after the footer whose count is not a multiple of four
    for n in [1usize, 2, 3, 5, 6, 7] {
        let mut p = plan.clone();
        p.trailing = vec![0u8; n];
        v.push((p, "stream_padding", format!("{} zero byte(s) after the footer", n)));
    }
    // index padding non-zero (CRC recomputed)
    if let Some(f) = field("index.pad") {
        for i in 0..f.len {
            let mut pad = vec![0u8; f.len];
            pad[i] = 1 + t.below(255) as u8;
            let mut p = plan.clone();
            p.ov_index_pad = Some(pad);
            v.push((p, "index.pad", format!("index padding byte {} non-zero", i)));
        }
        // several non-zero bytes at once (equal bytes, bytes that cancel under xor / sum)
        for pad in multi_pads(t, f.len) {
            let mut p = plan.clone();
            let note = format!("index padding bytes {:02x?}", pad);
            p.ov_index_pad = Some(pad);
            v.push((p, "index.pad", note));
        }
    }
    v
}

/// Paddings of `n` >= 2 bytes with more than one non-zero byte: all equal, first
/// and last equal, xor-cancelling, sum-cancelling, all 0xFF.
fn multi_pads(t: &mut Tape, n: usize) -> Vec<Vec<u8>> {
    let mut out = Vec::new();
    if n < 2 {
        return out;
    }
    let a = 1 + t.below(255) as u8;
    let b = 1 + t.below(255) as u8;
    out.push(vec![a; n]);
    out.push(vec![0xFF; n]);
    let mut p = vec![0u8; n];
    p[0] = a;
    p[n - 1] = a;
    out.push(p);
    let mut p = vec![0u8; n];
    p[0] = a;
    p[1] = a.wrapping_neg();
    out.push(p);
    if n >= 3 {
        out.push(vec![a, b, a ^ b]);
        let mut p = vec![a, b, 0];
        p[2] = a.wrapping_add(b).wrapping_neg();
        out.push(p);
    }
    out.retain(|p| p.iter().any(|x| *x != 0));
    out
}

fn exec_one(sc: &Scenario, ctx: &mut Ctx) -> Vec<Violation> {
    ctx.begin(sc);
    let input = sc.b("input");
    let mut out = Vec::new();
    // the property does not depend on the reader: each case is decoded through
    // the reader behaviour the scenario names (slice, or scripted refills)
    let (v, _) = run_with_reader(
        EP_XZ,
        input,
        if sc.l("src_script").is_empty() { RK_SLICE } else { RK_SIM },
        sc.l("src_script"),
        crate::env::Faults::none(),
        0,
        &mut out,
        &OptSpec::default(),
        &RawSpec::default(),
        0,
        0,
    );
    if !sc.l("src_script").is_empty() {
        ctx.stats.hit("arm.decoded_through_fragmented_reader");
    }
    let field = sc.note.split(" | ").next().unwrap_or("?").to_string();
    ctx.stats.eval(sc.hash(), true, 1);
    if sc.note.starts_with("none | unmodified") {
        // the unmodified file must be accepted with the exact content
        if let Verdict::Panic(p) = &v {
            return vec![Violation::new("panic", &panic_locus(p), p.clone(), sc)];
        }
        if !v.is_ok() || out != sc.b("original") {
            return vec![Violation::new("rejects_valid_file", "unmodified", v.short(), sc)];
        }
        return Vec::new();
    }
    match &v {
        Verdict::Panic(p) => {
            return vec![Violation::new("panic", &panic_locus(p), format!("{} [{}]", p, sc.note), sc)];
        }
        Verdict::Err(_) => {
            ctx.stats.hit("verdict.err");
            return Vec::new();
        }
        Verdict::Ok => ctx.stats.hit("verdict.ok"),
    }
    // success: every listed integrity field must agree with what was delivered
    match judge_xz(input, &out) {
        Judge::Agree => ctx.stats.hit("probe.success_and_judge_agrees"),
        Judge::Unjudged(_) => ctx.stats.hit("probe.success_but_unjudged_framing"),
        Judge::Disagree(f, d) => {
            return vec![Violation::new(
                "accepts_bad_field",
                &f,
                format!("xz_decompress succeeded although {} [{}]", d, sc.note),
                sc,
            )];
        }
    }
    if sc.i("crc_protected") == 1 && out != sc.b("original") {
        return vec![Violation::new(
            "silent_corruption",
            &field,
            format!(
                "file with CRC check corrupted ({}), xz_decompress succeeded with output that differs from the original ({} vs {} bytes)",
                sc.note,
                out.len(),
                sc.b("original").len()
            ),
            sc,
        )];
    }
    Vec::new()
}

impl Property for C06 {
    fn id(&self) -> &'static str {
        "C06"
    }
    fn level(&self) -> &'static str {
        "fault_enumeration"
    }
    fn rule(&self) -> &'static str {
        "per seeded valid .xz file (0-3 blocks, check None/CRC32/CRC64, optional fields, paddings): (a) one bit flipped — every bit position in the thorough tier, a sample in quick; (b) truncation at every (sampled) offset; (c) every integrity/size field (magics, stream flags incl. the reserved first byte on one side only, the 4 kinds of CRC32, backward size, index count and records (also two records wrong together with both column sums preserved; also every size/count integer spelt over-long in ten bytes whose first nine carry the true value), declared block sizes, size byte, the LZMA2 filter's size-of-properties (2-4), all paddings incl. the block header's (one byte non-zero; several at once: equal, cancelling under xor or sum, all 0xFF; 1-3 or 5-7 zero bytes after the footer), check field) replaced by values from {0, 1, true±1, true+4, true+2^30·k, true+2^32, 2^31, 2^32-1, 2^63-1, random} with every enclosing CRC recomputed. One evaluation = one mutated file through xz_decompress (reader rotating over: slice, 1-byte refills, fixed k, irregular refills); Ok obliges (1) the field-exact judge to confirm every listed field against the delivered bytes and (2) for CRC32/CRC64 files delivered == original; all cases distinct by scenario hash and non-trivial"
    }
    fn runs(&self, tier: Tier) -> u64 {
        match tier {
            Tier::Quick => 1_500,
            Tier::Thorough => 100_000,
        }
    }
    fn both_profiles(&self) -> bool {
        true
    }
    fn assumptions(&self) -> Vec<&'static str> {
        vec![
            "one-directional: lzma-rs may reject more than the judge; the judge is strict about exactly the fields the statement lists and does no range decoding (compressed/uncompressed lengths come from the LZMA2 chunk framing)",
            "a file whose chunk framing the judge cannot walk while lzma-rs said Ok is counted as unjudged (C17's subject), never as a violation",
            "a CRC32 collision (2^-32 per case) would be reported as silent corruption; none is expected within the budget",
        ]
    }
    fn run(&self, t: &mut Tape, ctx: &mut Ctx) -> Vec<Violation> {
        let mut plan = gen_xz_plan(t, 120);
        while plan.blocks.len() > 3 {
            plan.blocks.pop();
        }
        let built = build_xz(&plan);
        let crc = (plan.check_id == 1 || plan.check_id == 4) as u64;
        let thorough = ctx.tier == Tier::Thorough;
        // reader behaviour for this file's cases: rotates per case
        let scripts: [Vec<u64>; 4] = [vec![], vec![1], vec![t.range(2, 9)], vec![t.range(1, 4), t.range(1, 40), 1]];
        let case_no = std::cell::Cell::new(t.below(4) as usize);
        let mk = |bytes: Vec<u8>, note: String| {
            let mut sc = Scenario::new("c06");
            case_no.set(case_no.get() + 1);
            let script = &scripts[case_no.get() % 4];
            if !script.is_empty() {
                sc.set_l("src_script", script.clone());
            }
            sc.set_b("input", bytes);
            sc.set_b("original", built.content.clone());
            sc.set_i("crc_protected", crc);
            sc.note = note;
            sc
        };
        // the unmodified file must be accepted (sanity of the generator)
        {
            let sc = mk(built.bytes.clone(), "none | unmodified file".into());
            let r = exec_one(&sc, ctx);
            if !r.is_empty() {
                return r;
            }
        }
        // (a) bit flips
        let nbits = built.bytes.len() * 8;
        let flips: Vec<usize> = if thorough {
            (0..nbits).collect()
        } else {
            (0..160).map(|_| t.below(nbits as u64) as usize).collect()
        };
        for bit in flips {
            let mut m = built.bytes.clone();
            m[bit / 8] ^= 1 << (bit % 8);
            let fname = built
                .fields
                .iter()
                .find(|f| bit / 8 >= f.off && bit / 8 < f.off + f.len)
                .map(|f| f.name.clone())
                .unwrap_or_else(|| "other".into());
            ctx.stats.hit("fault.fired.bit_flip");
            let r = exec_one(&mk(m, format!("bitflip | bit {} of byte {} ({})", bit % 8, bit / 8, fname)), ctx);
            if !r.is_empty() {
                return r;
            }
        }
        // (b) truncation
        let cuts: Vec<usize> = if thorough {
            (0..built.bytes.len()).collect()
        } else {
            (0..50).map(|_| t.below(built.bytes.len() as u64) as usize).collect()
        };
        for cut in cuts {
            ctx.stats.hit("fault.fired.truncation");
            let r = exec_one(&mk(built.bytes[..cut].to_vec(), format!("truncation | file cut to {} of {} bytes", cut, built.bytes.len())), ctx);
            if !r.is_empty() {
                return r;
            }
        }
        // (c) field substitution with enclosing CRCs recomputed
        for (p, field, note) in field_variants(t, &plan) {
            let b2 = build_xz(&p);
            if b2.bytes == built.bytes {
                continue;
            }
            ctx.stats.hit("fault.fired.field_substitution_crc_consistent");
            let key: &'static str = match field {
                "footer.backward" => "probe.substituted_backward_size",
                "index.records_pair" => "probe.two_index_records_wrong_sums_preserved",
                "vli.overlong" => "probe.integer_spelt_in_ten_bytes",
                "vli.nonminimal" => "probe.integer_not_in_shortest_form",
                "index.count" | "index.unpadded" | "index.uncompressed" | "index.pad" | "index.crc32" => "probe.substituted_index_field",
                "block.csize" | "block.usize" | "block.size_byte" => "probe.substituted_declared_block_size",
                "block.pad" | "block.header_pad" | "block.filter_props_size" | "stream_padding" => "probe.substituted_padding",
                "block.check" => "probe.substituted_check_field",
                "header.magic" | "footer.magic" => "probe.substituted_magic",
                "footer.flags" | "header.flags" => "probe.header_footer_flags_disagree",
                _ => "probe.substituted_crc_field",
            };
            ctx.stats.hit(key);
            let r = exec_one(&mk(b2.bytes, format!("{} | {}", field, note)), ctx);
            if !r.is_empty() {
                return r;
            }
        }
        ctx.stats.hit("arm.files_fully_processed");
        Vec::new()
    }
    fn replay(&self, sc: &Scenario, ctx: &mut Ctx) -> Vec<Violation> {
        exec_one(sc, ctx)
    }
}
