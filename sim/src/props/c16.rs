//! C16 — a failed or completed stream stays failed or completed.

use super::c13::mutate;
use super::common::*;
use crate::drive::*;
use crate::env::*;
use crate::gen;
use crate::prng::Tape;
use crate::runner::{Ctx, SimpleProp, Tier};
use crate::scenario::{Scenario, Violation};
use std::rc::Rc;

fn gen(t: &mut Tape, _tier: Tier) -> Scenario {
    let mut sc = Scenario::new("c16");
    let mut opts = OptSpec::default();
    // 0 over-long valid (completion latch), 1 corrupt (failure latch), 2 valid,
    // 3 fatal error in the header phase (invalid properties byte), possibly
    //   followed by a complete valid stream
    // 4 "lying size": a size in effect that is smaller than what the stream holds,
    //   typically falling inside a match — completion happens by overshooting
    let kind = t.below(5);
    // kind 5: a valid stream of several windows with the sink failing while the
    // window is handed over (the only moment the streaming decoder writes)
    let kind = if kind == 2 && t.below(2) == 0 { 5 } else { kind };
    // over-long, variant: what follows the size-bounded stream is its own end marker
    // (a stream may carry both; the size ends it first, the marker bytes are "more")
    let own_marker = kind == 0 && t.below(4) == 0;
    let several_windows = kind == 5 || t.below(4) == 0;
    let b = gen_lzma(t, if own_marker { 1 } else if kind == 0 || kind == 4 { 2 } else { 0 }, if several_windows { 20_000 } else { 2500 });
    opts.mode = t.below(3);
    let mut size = if b.marker && !own_marker { None } else { Some(b.expect.len() as u64) };
    let mut lying: Option<(u64, u64)> = None; // (declared size, input offset of completion within the payload)
    if kind == 4 && b.expect.len() >= 2 {
        let n = t.range(1, b.expect.len() as u64 - 1);
        if let Some(r) = b.trace.iter().find(|r| r.produced as u64 >= n) {
            lying = Some((n, r.consumed as u64));
            size = Some(n);
        }
    }
    let mut input = match opts.mode {
        0 => b.file(Some(size.unwrap_or(u64::MAX))),
        1 => {
            opts.provided = size;
            b.file(Some(t.u64()))
        }
        _ => {
            opts.provided = size;
            b.file(None)
        }
    };
    let payload_end = input.len();
    let mut note = String::from("valid");
    if own_marker {
        let c = b.trace.iter().filter(|r| r.kind != 4).map(|r| r.consumed as u64).last().unwrap_or(5);
        let hl = opts.header_len() as u64;
        sc.set_i("payload_end", hl + c);
        sc.set_b("expect", b.expect.clone());
        sc.set_i("own_marker", 1);
        note = format!("over-long: size-bounded stream completing after {} input bytes, followed by its own end marker ({} more bytes)", hl + c, payload_end as u64 - hl - c);
    } else if kind == 0 {
        let n = t.range(1, 60) as usize;
        let extra = match t.below(3) {
            0 => vec![0u8; n],
            1 => gen::draw_bytes(t, n),
            _ => input.clone(),
        };
        input.extend_from_slice(&extra);
        sc.set_i("payload_end", payload_end as u64);
        sc.set_b("expect", b.expect.clone());
        note = format!("over-long: valid size-bounded stream of {} bytes + {} more", payload_end, input.len() - payload_end);
    } else if let Some((n, c)) = lying {
        let hl = opts.header_len() as u64;
        sc.set_i("payload_end", hl + c);
        sc.set_i("lying", 1);
        sc.set_b("expect", b.expect.clone());
        note = format!("size in effect {} of {} (inside the stream): completion after {} input bytes", n, b.expect.len(), hl + c);
    } else if kind == 5 {
        let k = t.range(1, 3);
        let kindf = [FK_OTHER, FK_WOULDBLOCK, FK_WRITE_ZERO, FK_DISK_FULL][t.below(4) as usize];
        sc.set_l("sink_wfaults", vec![k, kindf]);
        sc.set_l("sink_script", gen::draw_script(t));
        note = format!("valid stream of {} bytes output, sink write #{} fails ({})", b.expect.len(), k, fk_name(kindf));
        sc.set_b("expect", b.expect.clone());
    } else if kind == 1 {
        let m = mutate(t, &mut input);
        note = format!("mutation: {}", m);
    } else if kind == 3 {
        let bad = 225 + t.below(31) as u8;
        match t.below(3) {
            0 => input[0] = bad,
            1 => {
                // one bad byte, then a complete valid stream
                let mut v = vec![bad];
                v.extend_from_slice(&input);
                input = v;
            }
            _ => {
                input = vec![bad];
                let n = t.below(30) as usize;
                let e = gen::draw_bytes(t, n);
                input.extend_from_slice(&e);
            }
        }
        note = format!("invalid properties byte {} in the header", bad);
    } else {
        sc.set_b("expect", b.expect.clone());
        sc.set_i("valid", 1);
    }
    if t.below(8) == 0 {
        opts.memlimit = Some(t.range(0, 3000) as usize);
        sc.set_i("valid", 0);
    }
    // the latches hold under every option: also when incomplete input is allowed
    opts.allow_incomplete = t.below(3) == 0;
    // history that keeps going after failure / completion
    let mut ops = Vec::new();
    if sc.has_i("payload_end") && t.below(2) == 0 {
        // feed exactly up to the point of completion first: what follows arrives in
        // calls of its own, to a decoder that is complete and holds nothing back
        ops.extend_from_slice(&[OP_WRITE_N, sc.i("payload_end")]);
        if t.below(3) == 0 {
            ops.extend_from_slice(&[OP_WRITE, input.len() as u64]);
        }
    }
    let nops = t.range(3, 40);
    for _ in 0..nops {
        match t.below(10) {
            0 => ops.extend_from_slice(&[OP_FLUSH, 0]),
            1 => ops.extend_from_slice(&[[OP_PEEK, OP_PEEK_MUT][t.below(2) as usize], 0]),
            2 => ops.extend_from_slice(&[OP_WRITE, 0]),
            3 => ops.extend_from_slice(&[OP_WRITE, t.range(1, 2000)]),
            4 => ops.extend_from_slice(&[OP_WRITE_N, t.range(1, 300)]),
            _ => ops.extend_from_slice(&[OP_WRITE, t.range(1, 40)]),
        }
    }
    if t.below(2) == 0 {
        ops.extend_from_slice(&[OP_WRITE_ALL, 0]);
        for _ in 0..t.range(0, 4) {
            ops.extend_from_slice(&[OP_WRITE, t.range(0, 10), OP_FLUSH, 0]);
        }
    }
    ops.extend_from_slice(&[OP_PEEK, 0, OP_FINISH, 0]);
    sc.note = format!("{}; {} ops", note, ops.len() / 2);
    opts.wrapper = t.below(2) == 1;
    opts.store(&mut sc);
    sc.set_b("input", input);
    sc.set_l("ops", ops);
    sc
}

fn exec(sc: &Scenario, ctx: &mut Ctx) -> Vec<Violation> {
    let opts = OptSpec::load(sc);
    let input = sc.b("input");
    let expect = if sc.has_b("expect") {
        Some(Rc::new(sc.b("expect").to_vec()))
    } else {
        None
    };
    let (sink, st) = SimSink::new(
        expect.clone(),
        sc.l("sink_script"),
        Faults::from_list(sc.l("sink_wfaults")),
        Faults::none(),
    );
    let o = run_stream(input, sc.l("ops"), &opts, sink, &st, true);
    let s = st.borrow();
    let mk = |class: &str, detail: String| vec![Violation::new(class, "Stream call history", detail, sc)];
    ctx.stats.eval(sc.hash(), true, o.events.len() as u64);
    if let Some(p) = &o.panicked {
        return vec![Violation::new("panic", &panic_locus(p), p.clone(), sc)];
    }
    if opts.allow_incomplete {
        ctx.stats.hit("arm.allow_incomplete");
    }
    if s.fired_hard > 0 {
        ctx.stats.hit("fault.fired.sink_write_fails_during_a_stream_write");
        // the call during which the sink failed must itself have failed
        for (i, ev) in o.events.iter().enumerate() {
            if ev.fault_fired && ev.result.is_ok() {
                return mk(
                    "sink_failure_swallowed",
                    format!("the sink failed during call #{} (op {}), which returned Ok", i, ev.op),
                );
            }
        }
    }
    // failure latch
    if let Some(e) = o.first_write_err {
        ctx.stats.hit("probe.history_continues_after_failed_write");
        let len_at_failure = o.events[e].sink_len;
        let mut later_writes = 0;
        for (i, ev) in o.events.iter().enumerate().skip(e + 1) {
            match ev.op {
                OP_WRITE | OP_WRITE_N | OP_WRITE_ALL => {
                    later_writes += 1;
                    if let Ok(n) = ev.result {
                        if n != 0 {
                            return mk(
                                "write_consumes_after_failure",
                                format!("write #{} failed, yet event #{} reports {} bytes consumed", e, i, n),
                            );
                        }
                    }
                }
                OP_FINISH => {
                    if ev.result.is_ok() {
                        return mk(
                            "finish_succeeds_after_failure",
                            format!("write #{} failed, yet finish returned Ok", e),
                        );
                    }
                }
                _ => {}
            }
            if ev.sink_len != len_at_failure {
                return mk(
                    "sink_written_after_failure",
                    format!(
                        "write #{} failed with {} bytes in the sink; after event #{} the sink holds {}",
                        e, len_at_failure, i, ev.sink_len
                    ),
                );
            }
        }
        if later_writes > 0 {
            ctx.stats.hit("probe.writes_issued_after_failure");
        }
        return Vec::new();
    }
    // completion latch (over-long input: valid size-bounded stream + more bytes)
    if sc.has_i("payload_end") && !opts.memlimit.is_some() {
        let pe = sc.i("payload_end") as usize;
        let mut fed = 0usize;
        let mut complete_at = None;
        for (i, ev) in o.events.iter().enumerate() {
            if let Ok(n) = ev.result {
                if matches!(ev.op, OP_WRITE | OP_WRITE_N | OP_WRITE_ALL) {
                    if let Some(c) = complete_at {
                        if n != 0 {
                            return mk(
                                "write_consumes_after_completion",
                                format!(
                                    "all {} payload bytes were consumed by event #{}; event #{} (write of {} bytes) still reports {} consumed",
                                    pe, c, i, ev.offered, n
                                ),
                            );
                        }
                        if ev.offered > 0 {
                            ctx.stats.hit("probe.nonempty_write_after_completion");
                        }
                    }
                    fed += n;
                    if fed >= pe && complete_at.is_none() {
                        complete_at = Some(i);
                        if fed > pe {
                            // the completing write itself may not swallow bytes past the payload
                            // beyond the decoder's own look-ahead buffer; recorded, not judged
                            ctx.stats.hit("probe.completing_write_took_bytes_past_payload");
                        }
                    }
                }
            }
        }
        if complete_at.is_some() {
            ctx.stats.hit("probe.history_continues_after_completion");
        }
        if sc.i("lying") == 1 {
            if complete_at.is_some() {
                ctx.stats.hit("probe.completion_by_overshooting_a_lying_size");
            }
            if s.first_bad.is_some() {
                return mk("output_not_prefix", format!("sink byte {:?} is not what the stream decodes to", s.first_bad));
            }
            return Vec::new();
        }
        if complete_at.is_none() {
            // the history never fed the whole payload: nothing to latch
            if s.first_bad.is_some() {
                return mk("output_not_prefix", format!("sink byte {:?} is not what the stream decodes to", s.first_bad));
            }
            return Vec::new();
        }
        if let Some(Verdict::Ok) = o.finish {
            // allow_incomplete: finish leaves the look-ahead buffer undecoded (see below)
            let short_ok = opts.allow_incomplete && s.accepted.len() < sc.b("expect").len();
            if s.first_bad.is_some() || (s.accepted.len() != sc.b("expect").len() && !short_ok) {
                return mk(
                    "output_changed_after_completion",
                    format!("final output has {} bytes (first bad {:?}), the stream defines {}", s.accepted.len(), s.first_bad, sc.b("expect").len()),
                );
            }
        } else if complete_at.is_some() && o.finish.is_some() {
            return mk(
                "finish_fails_after_completion",
                format!("declared size reached, later writes consumed nothing, yet finish returned {}", o.finish.as_ref().unwrap().short()),
            );
        }
        return Vec::new();
    }
    if sc.i("valid") == 1 {
        // plain valid stream fed completely: must finish Ok with the exact output
        if o.fed == input.len() {
            if let Some(Verdict::Ok) = o.finish {
                // with incomplete input allowed finish does not decode what sits in the
                // look-ahead buffer: the tail may be missing (C15 bounds it), never wrong
                let short_ok = opts.allow_incomplete && s.accepted.len() < sc.b("expect").len();
                if s.first_bad.is_some() || (s.accepted.len() != sc.b("expect").len() && !short_ok) {
                    return mk("wrong_output", format!("{} bytes, expected {}", s.accepted.len(), sc.b("expect").len()));
                }
            } else {
                return mk("valid_stream_fails", format!("finish: {:?}", o.finish.as_ref().map(|v| v.short())));
            }
        }
    }
    Vec::new()
}

pub static C16: SimpleProp = SimpleProp {
    id: "C16",
    level: "exploration",
    rule: "one evaluation = one call history (3-50 calls of write with sizes 0..2000 / write_all-style pieces / flush / get_output, then finish) (options: all three header modes, memory limit, allow_incomplete on a third of the runs) over a valid, corrupted (bit flip, truncation, splice, extension), over-long (zeros, noise, the stream again, or the size-bounded stream's own end marker; half of these histories first feed exactly up to the point of completion) or size-lying input, an invalid header byte, or a multi-window stream whose sink fails while the window is handed over, continuing after the first Err and after the declared size is reached; latch rules are checked over the recorded (call, result, sink length) history; distinct by scenario hash; every case non-trivial (>= 3 calls)",
    runs_quick: 300_000,
    runs_thorough: 30_000_000,
    both_profiles: false,
    assumptions: &[
        "completion is observed from outside: once the writes have consumed every byte of a valid size-bounded payload the declared size has been reached",
    ],
    gen,
    exec,
    enumerate: None,
};
