//! C09 — match references outside the produced window are always rejected.
//! Valid prefix + one illegal copy, at chosen positions relative to the wrap
//! point, for both window implementations.

use super::common::*;
use crate::drive::*;
use crate::env::*;
use crate::gen;
use crate::prng::Tape;
use crate::refmodel::codec::RefEnc;
use crate::refmodel::container::*;
use crate::refmodel::lz::Sym;
use crate::runner::{Ctx, SimpleProp, Tier};
use crate::scenario::{Scenario, Violation};
use std::rc::Rc;

/// Draw an illegal copy for the current model state; None if none exists
/// (cannot happen: a far match is always illegal).
fn bad_symbol(t: &mut Tape, enc: &RefEnc) -> (Sym, &'static str) {
    let m = &enc.model;
    let avail = m.avail() as u64;
    let dict = m.dict_size;
    let len = [2u32, 3, 9, 18, 273][t.below(5) as usize];
    let mut cands: Vec<(Sym, &'static str)> = Vec::new();
    if avail + 1 <= 0xFFFF_FFFF {
        if avail < dict {
            cands.push((
                Sym::Match {
                    dist: (avail + 1) as u32,
                    len,
                },
                "match: distance = produced + 1",
            ));
        }
    }
    if dict < 0xFFFF_FFFF && avail >= dict {
        cands.push((
            Sym::Match {
                dist: (dict + 1) as u32,
                len,
            },
            "match: distance = dictionary + 1 (window full)",
        ));
        if avail > dict + 1 {
            cands.push((
                Sym::Match {
                    dist: (dict + 1 + t.below(avail - dict)) as u32,
                    len,
                },
                "match: distance one lap back (between dictionary size and bytes produced)",
            ));
        }
    }
    if avail < 0x8000_0000 && dict >= 0x8000_0000 || dict < 0x8000_0000 {
        cands.push((
            Sym::Match {
                dist: 0x8000_0000,
                len,
            },
            "match: distance 2^31",
        ));
    }
    cands.push((
        Sym::Match {
            dist: 0xFFFF_FFFF,
            len,
        },
        "match: distance 2^32-1",
    ));
    let lim = avail.min(dict);
    if lim < 0xFFFF_FFF0 {
        cands.push((
            Sym::Match {
                dist: (lim + 1 + t.below(1000.min(0xFFFF_FFFF - lim - 1) + 1)) as u32,
                len,
            },
            "match: distance slightly beyond the limit",
        ));
    }
    // repeated distances are illegal only when the stored distance exceeds
    // what is available (stream start; after an LZMA2 dictionary reset)
    if !m.legal(Sym::ShortRep) {
        cands.push((Sym::ShortRep, "short repeat beyond the window"));
    }
    for idx in 0..4u8 {
        let s = Sym::Rep { idx, len };
        if !m.legal(s) {
            cands.push((s, "repeated match beyond the window"));
        }
    }
    if enc.state >= 7 && (m.reps[0] as u64 + 1) > lim {
        cands.push((Sym::Lit(t.byte()), "literal in matched mode with rep0 beyond the window"));
    }
    // prefer the rarer kinds (everything that is not a plain far match) when present
    let rare: Vec<usize> = (0..cands.len())
        .filter(|i| !matches!(cands[*i].0, Sym::Match { .. }))
        .collect();
    let lit = (0..cands.len()).find(|i| matches!(cands[*i].0, Sym::Lit(_)));
    let i = if lit.is_some() && t.below(2) == 0 {
        lit.unwrap()
    } else if !rare.is_empty() && t.below(3) != 0 {
        rare[t.below(rare.len() as u64) as usize]
    } else {
        t.below(cands.len() as u64) as usize
    };
    // filter candidates that are in fact legal (defensive)
    let (s, why) = cands[i];
    if m.legal(s) && !matches!(s, Sym::Lit(_)) {
        (
            Sym::Match {
                dist: 0xFFFF_FFFF,
                len,
            },
            "match: distance 2^32-1",
        )
    } else {
        (s, why)
    }
}

fn sym_len(s: Sym) -> usize {
    match s {
        Sym::Lit(_) | Sym::ShortRep => 1,
        Sym::Match { len, .. } | Sym::Rep { len, .. } => len as usize,
    }
}

fn gen(t: &mut Tape, _tier: Tier) -> Scenario {
    let mut sc = Scenario::new("c09");
    let which = t.below(6);
    let cfg = gen::draw_cfg(t);
    let mut ps = gen::ProgStats::default();
    if which <= 3 {
        // circular window: .lzma one-shot, raw with tiny dictionary, Stream
        let raw = which == 1;
        let props = gen::draw_props(t, false);
        let (dict_hdr, dict) = if raw {
            let d = [1u64, 2, 3, 7, 16, 64][t.below(6) as usize];
            (d as u32, d)
        } else {
            match t.below(3) {
                0 => (4096u32, 4096u64),
                1 => (0, 4096),
                _ => gen::draw_dict_header(t),
            }
        };
        // prefix length relative to the wrap point
        let d = dict.min(8192);
        let prefix = match t.below(10) {
            0 => 0,
            1 => 1,
            2 => d - 1,
            3 => d,
            4 => d + 1,
            5 => d * t.range(1, 3) + t.below(3),
            6 => (d * t.range(1, 3)).saturating_sub(1 + t.below(2)),
            _ => t.range(0, 300),
        };
        let mut enc = RefEnc::new(props, dict);
        gen::gen_program(t, &cfg, &mut enc, prefix, 8000, &mut ps);
        let expect = enc.model.out.clone();
        let (bad, why) = bad_symbol(t, &enc);
        let _ = enc.encode(bad);
        // how the stream ends after the illegal copy: declared size, end marker, or
        // neither (size unknown and the input simply stops: the copy is the last symbol)
        let term = t.below(3);
        let marker = term == 1;
        let unknown = term != 0;
        let declared = (expect.len() + sym_len(bad)) as u64;
        if marker {
            enc.encode_end_marker();
        }
        if term == 2 {
            sc.set_i("ends_after_bad_copy", 1);
        }
        let payload = enc.finish_segment();
        let mut opts = OptSpec::default();
        // a memory limit that is large enough must not change anything
        opts.memlimit = match t.below(7) {
            0 => Some(dict.min(1 << 30) as usize),
            1 => Some(1 << 30),
            2 => Some((dict.min(1 << 28) * 2) as usize),
            // a window capacity below the dictionary: the decode may stop early with a
            // memory-limit error, but what it delivers must still be what the symbols
            // define (never bytes left behind by an earlier lap of a smaller ring)
            3 => {
                sc.set_i("low_limit", 1);
                Some(match t.below(4) {
                    0 => t.range(1, 64),
                    1 => (expect.len() as u64 / 2).max(1),
                    2 => dict.min(1 << 20).saturating_sub(1 + t.below(4)).max(1),
                    _ => t.range(1, dict.min(1 << 20).max(2) - 1),
                } as usize)
            }
            _ => None,
        };
        if raw {
            sc.set_i("ep", EP_RAW_LZMA);
            RawSpec {
                lc: props.lc,
                lp: props.lp,
                pb: props.pb,
                dict: dict as u32,
                size: if unknown { None } else { Some(declared) },
                pre: None,
            }
            .store(&mut sc);
            sc.set_b("input", payload);
        } else {
            sc.set_i("ep", if which == 3 { EP_STREAM } else { EP_LZMA });
            let mut f = lzma_header(props, dict_hdr, Some(if unknown { u64::MAX } else { declared }));
            f.extend_from_slice(&payload);
            sc.set_b("input", f);
            if which == 3 {
                // a third of the Stream runs allow incomplete input: finish then skips
                // its last pass, so the refusal has to come from the write that meets
                // the copy (every byte of the symbol, and the encoder's flush bytes
                // after it, has been written by then)
                opts.allow_incomplete = t.below(3) == 0;
                let mut ops = Vec::new();
                if t.below(2) == 1 {
                    let k = t.range(1, 50);
                    for _ in 0..20 {
                        ops.extend_from_slice(&[OP_WRITE, k]);
                    }
                }
                ops.extend_from_slice(&[OP_WRITE_ALL, 0, OP_FINISH, 0]);
                sc.set_l("ops", ops);
            }
        }
        opts.store(&mut sc);
        sc.note = format!(
            "{}; lc={} lp={} pb={} dict={} prefix={} bytes ({} symbols), wrap-relative position {}",
            why,
            props.lc,
            props.lp,
            props.pb,
            dict,
            expect.len(),
            ps.symbols,
            if dict > 0 { expect.len() as u64 % dict } else { 0 }
        );
        sc.set_i("wrap_pos", if dict > 0 { expect.len() as u64 % dict } else { 0 });
        sc.set_i("laps", expect.len() as u64 / dict.max(1));
        sc.set_b("expect", expect);
        sc.set_i("bad_kind", bad_kind(bad));
    } else {
        // accumulating window: LZMA2 (plain or inside .xz)
        let mut w = Lzma2Writer::new();
        let mut note = String::new();
        let pre_chunks = t.below(3);
        let mut props_set = false;
        for i in 0..pre_chunks {
            if t.below(2) == 0 {
                let n = t.range(1, 60) as usize;
                let data = gen::draw_bytes(t, n);
                w.raw_chunk(i == 0 || t.below(3) == 0, &data);
                note.push_str("U ");
            } else {
                let reset = if i == 0 { 3 } else { 2 + t.below(2) as u8 };
                let ts = w.enc.trace.len();
                w.begin_lzma_chunk(reset, Some(gen::draw_props(t, true)));
                let target = t.range(1, 200);
                gen::gen_program(t, &cfg, &mut w.enc, target, 4000, &mut ps);
                if t.below(2) == 0 && w.enc.model.avail() >= 2 {
                    // end the chunk in a match state with a far rep0, so that a later
                    // chunk that keeps the state (after a dictionary reset) inherits a
                    // distance pointing before the reset
                    let far = w.enc.model.avail() as u32;
                    let _ = w.enc.encode(Sym::Match { dist: far, len: 2 });
                }
                if w.enc.model.out.len() == 0 || !w.end_lzma_chunk(reset, ts) {
                    let _ = w.enc.encode(Sym::Lit(1));
                    w.end_lzma_chunk(reset, ts);
                }
                props_set = true;
                note.push_str(["L0 ", "L1 ", "L2 ", "L3 "][reset as usize]);
            }
        }
        // optional uncompressed chunk with dictionary reset right before the
        // bad chunk: inherited state/reps then point before the reset
        let inherit = props_set && t.below(2) == 0;
        if inherit {
            let n = t.range(1, 8) as usize;
            let data = gen::draw_bytes(t, n);
            w.raw_chunk(true, &data);
            note.push_str("U1 ");
        }
        let reset: u8 = if inherit {
            t.below(2) as u8 // keep state (0) or reset state only (1): lzma-rs accepts both
        } else if pre_chunks == 0 {
            3
        } else if props_set {
            t.below(4) as u8
        } else {
            2 + t.below(2) as u8
        };
        // now and then the offending chunk is a mid-stream dictionary-reset chunk whose
        // declared size needs the size bits of the control byte (0xE1.. above 64 KiB,
        // 0xF0.. above 1 MiB): reset class and size share that byte
        let big = !inherit && pre_chunks > 0 && w.enc.model.out.len() > 0 && t.below(50) == 0;
        let reset: u8 = if big { 3 } else { reset };
        let ts = w.enc.trace.len();
        let newp = if reset >= 2 { Some(gen::draw_props(t, true)) } else { None };
        w.begin_lzma_chunk(reset, newp);
        let target = if inherit && reset == 0 { t.below(4).saturating_sub(1) } else { t.below(120) };
        if big {
            let fill = match t.below(4) {
                0 => t.range(0x10_0001, 0x1F_FF00),
                1 => 0x10_0000 + t.below(3),
                2 => t.range(65_536, 70_000),
                _ => t.range(65_536, 1 << 20),
            };
            let start = w.enc.model.out.len() as u64;
            let b0 = t.byte();
            let _ = w.enc.encode(Sym::Lit(b0));
            let _ = w.enc.encode(Sym::Lit(b0 ^ 0x5A));
            while (w.enc.model.out.len() as u64) < start + fill {
                let left = start + fill - w.enc.model.out.len() as u64;
                if left < 2 {
                    let _ = w.enc.encode(Sym::Lit(b0));
                } else {
                    let _ = w.enc.encode(Sym::Match { dist: 2, len: left.min(273) as u32 });
                }
            }
            sc.set_i("big_reset_chunk", 1);
        }
        gen::gen_program(t, &cfg, &mut w.enc, target, 4000, &mut ps);
        let expect = w.enc.model.out.clone();
        let (bad, why) = bad_symbol(t, &w.enc);
        let _ = w.enc.encode(bad);
        w.end_lzma_chunk_extra(reset, ts, sym_len(bad));
        w.end();
        note.push_str(["L0! ", "L1! ", "L2! ", "L3! "][reset as usize]);
        let in_xz = which == 5;
        if in_xz {
            let mut content = expect.clone();
            content.extend(std::iter::repeat(0).take(sym_len(bad)));
            let plan = XzPlan {
                check_id: 0,
                blocks: vec![BlockPlan {
                    payload: w.bytes.clone(),
                    content,
                    ..Default::default()
                }],
                ..Default::default()
            };
            sc.set_i("ep", EP_XZ);
            sc.set_b("input", build_xz(&plan).bytes);
            // xz_decompress delivers a block only after it decoded completely
            sc.set_b("expect", Vec::new());
        } else {
            sc.set_i("ep", if t.below(2) == 0 { EP_LZMA2 } else { EP_RAW_LZMA2 });
            sc.set_b("input", std::mem::take(&mut w.bytes));
            sc.set_b("expect", expect.clone());
        }
        OptSpec::default().store(&mut sc);
        sc.note = format!("{}; LZMA2 chunks: {}; prefix={} bytes", why, note, expect.len());
        sc.set_i("bad_kind", bad_kind(bad));
        sc.set_i("lzma2_inherit", inherit as u64);
    }
    sc.set_l("src_script", gen::draw_script(t));
    sc.set_l("sink_script", gen::draw_script(t));
    sc
}

fn bad_kind(s: Sym) -> u64 {
    match s {
        Sym::Lit(_) => 0,
        Sym::Match { .. } => 1,
        Sym::ShortRep => 2,
        Sym::Rep { .. } => 3,
    }
}

fn exec(sc: &Scenario, ctx: &mut Ctx) -> Vec<Violation> {
    let ep = sc.i("ep");
    let opts = OptSpec::load(sc);
    let raw = RawSpec::load(sc);
    let (mut sink, st) = SimSink::new(
        Some(Rc::new(sc.b("expect").to_vec())),
        sc.l("sink_script"),
        Faults::none(),
        Faults::none(),
    );
    // With incomplete input allowed, `finish` decodes nothing more: a stream is only
    // looked at by write calls made after the header and the 5-byte preamble have been
    // taken in. If no such call was offered a byte (everything arrived with the call
    // that completed the header), the copy was never reached and Ok with a proper
    // prefix is what the option promises (C15) - that case is tolerated, no other.
    let mut never_looked_at = false;
    let (v, events, log) = if ep == EP_STREAM {
        let o = run_stream(sc.b("input"), sc.l("ops"), &opts, sink, &st, false);
        if opts.allow_incomplete {
            let mut cum = 0usize;
            let mut header_done_at: Option<usize> = None;
            for (i, e) in o.events.iter().enumerate() {
                if !matches!(e.op, OP_WRITE | OP_WRITE_ALL | OP_WRITE_N) {
                    continue;
                }
                if let Some(h) = header_done_at {
                    if i > h && e.offered > 0 {
                        header_done_at = Some(usize::MAX - 1); // marker: looked at
                        break;
                    }
                } else if let Ok(n) = e.result {
                    cum += n;
                    if cum >= 13 + 5 {
                        header_done_at = Some(i);
                    }
                }
            }
            never_looked_at = header_done_at != Some(usize::MAX - 1);
        }
        (stream_verdict(&o), o.events.len() as u64, 0)
    } else {
        let (v, ro) = run_with_reader(
            ep,
            sc.b("input"),
            RK_SIM,
            sc.l("src_script"),
            Faults::none(),
            0,
            &mut sink,
            &opts,
            &raw,
            0,
            0,
        );
        (v, ro.calls, ro.log)
    };
    let s = st.borrow();
    match sc.i("bad_kind") {
        0 => ctx.stats.hit("probe.bad_matched_literal"),
        1 => ctx.stats.hit("probe.bad_match"),
        2 => ctx.stats.hit("probe.bad_shortrep"),
        _ => ctx.stats.hit("probe.bad_rep"),
    }
    match ep {
        EP_LZMA => ctx.stats.hit("arm.circular_window_lzma_decompress"),
        EP_RAW_LZMA => ctx.stats.hit("arm.circular_window_raw_tiny_dictionary"),
        EP_STREAM => ctx.stats.hit("arm.circular_window_stream"),
        EP_XZ => ctx.stats.hit("arm.accumulating_window_in_xz"),
        _ => ctx.stats.hit("arm.accumulating_window_lzma2"),
    }
    if sc.i("laps") >= 1 {
        ctx.stats.hit("probe.bad_copy_after_at_least_one_lap");
    }
    if sc.i("wrap_pos") <= 1 && sc.i("laps") >= 1 {
        ctx.stats.hit("probe.bad_copy_at_wrap_point_plus_0_or_1");
    }
    if sc.i("ends_after_bad_copy") == 1 {
        ctx.stats.hit("probe.illegal_copy_is_the_last_symbol_size_unknown_no_marker");
    }
    if sc.i("low_limit") == 1 {
        ctx.stats.hit("arm.memory_limit_below_the_dictionary");
    }
    if sc.i("big_reset_chunk") == 1 {
        ctx.stats.hit("probe.illegal_copy_in_mid_stream_dictionary_reset_chunk_above_64KiB");
    }
    if sc.i("lzma2_inherit") == 1 {
        ctx.stats.hit("probe.distance_inherited_across_lzma2_dictionary_reset");
    }
    ctx.stats.eval(sc.hash() ^ log ^ s.log, true, events + s.writes);
    if let Verdict::Panic(p) = &v {
        return vec![Violation::new("panic", &panic_locus(p), p.clone(), sc)];
    }
    if let Some(off) = s.first_bad {
        return vec![Violation::new(
            "fabricated_bytes",
            ep_name(ep),
            format!(
                "sink received byte {} which the valid prefix ({} bytes) does not define: {}",
                off,
                sc.b("expect").len(),
                sc.note
            ),
            sc,
        )];
    }
    if v.is_ok() && never_looked_at {
        ctx.stats.hit("probe.incomplete_input_allowed_and_copy_never_looked_at");
        return Vec::new();
    }
    if opts.allow_incomplete && ep == EP_STREAM {
        ctx.stats.hit("arm.stream_with_incomplete_input_allowed");
    }
    if v.is_ok() {
        return vec![Violation::new(
            "accepts_out_of_window_copy",
            ep_name(ep),
            format!("stream with an illegal copy decoded successfully: {}", sc.note),
            sc,
        )];
    }
    Vec::new()
}

pub static C09: SimpleProp = SimpleProp {
    id: "C09",
    level: "exploration",
    rule: "one evaluation = one decode of (valid reference-encoded prefix + one illegal copy: distance produced+1, dictionary+1, one lap back, 2^31, 2^32-1, stale repeated distance at stream start or across an LZMA2 dictionary reset, matched literal with stale rep0) followed by a declared size, an end marker, or nothing at all (size unknown), placed at wrap-relative positions 0,1,dict-1,dict,dict+1,k*dict±1 and random; circular window via lzma_decompress / raw decoder (dictionary 1..64, 4096..) / Stream (a third of them with incomplete input allowed), with no memory limit, one >= the dictionary, or one below it (the delivered bytes must then still be a prefix of what the symbols define), accumulating window via LZMA2 plain and inside .xz; every case distinct by scenario hash and non-trivial by construction",
    runs_quick: 200_000,
    runs_thorough: 24_000_000,
    both_profiles: false,
    assumptions: &[
        "the LZ model decides what the prefix produces; any sink byte beyond or different from it counts as fabricated",
        "rejection is observed as the call's Err; the position at which the error is raised is not observable from outside and not asserted",
    ],
    gen,
    exec,
    enumerate: None,
};
