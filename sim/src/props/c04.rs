//! C04 — compression round-trips and is format-conformant for every input,
//! regardless of how the input reader fragments the data.

use crate::drive::*;
use crate::env::*;
use crate::gen;
use crate::prng::Tape;
use crate::refmodel::container::*;
use crate::runner::{Ctx, SimpleProp, Tier};
use crate::scenario::{Scenario, Violation};

/// An input longer than the 8 MiB dictionary the encoder announces (so that this
/// library's own decoder wraps its window on it), described by three numbers.
fn gen_huge(t: &mut Tape) -> Scenario {
    let mut sc = Scenario::new("c04");
    sc.set_i("huge", 1);
    sc.set_i("plain_class", [2u64, 2, 5, 6, 3][t.below(5) as usize]);
    sc.set_i("plain_seed", t.u64());
    let len = (8u64 << 20) + [1u64, 2, 4096, 100_000][t.below(4) as usize] + t.below(3);
    sc.set_i("plain_len", len);
    sc.set_i("ep", EP_C_LZMA);
    sc.set_i("enc_mode", t.below(3));
    sc.set_i("enc_size", len);
    sc.set_i("rk", [RK_SLICE, RK_BUFREADER][t.below(2) as usize]);
    sc.set_i("bufcap", t.range(4096, 70_000));
    sc.note = format!("{} bytes of plaintext (class {}): longer than the 8 MiB dictionary", len, sc.i("plain_class"));
    sc
}

fn gen(t: &mut Tape, tier: Tier) -> Scenario {
    if t.below(if tier == Tier::Thorough { 20_000 } else { 4_000 }) == 0 {
        return gen_huge(t);
    }
    let mut sc = Scenario::new("c04");
    let big_every = if tier == Tier::Thorough { 12 } else { 60 };
    let len: usize = if t.below(big_every) == 0 {
        [65535usize, 65536, 65537, 131072, 196608, 131071, 65536 + 4096][t.below(7) as usize]
    } else {
        match t.below(9) {
            0 => 0,
            1 => 1,
            2 => t.range(2, 16) as usize,
            3 => t.range(1000, 6000) as usize,
            // where the integers of the xz index change width (7-bit groups): 2^7, 2^14
            // (and 2^21, rarely: the encoder then handles 2 MiB)
            8 => match t.below(if tier == Tier::Thorough { 12 } else { 40 }) {
                0 => ((1usize << 21) - 40) + t.below(48) as usize,
                1..=5 => 16_300 + t.below(220) as usize,
                _ => 100 + t.below(40) as usize,
            },
            _ => t.range(2, 1000) as usize,
        }
    };
    let mut plain = gen::draw_plain(t, len);
    let mut ep = [EP_C_LZMA, EP_C_LZMA, EP_C_LZMA2, EP_C_XZ][t.below(4) as usize];
    let mut carry_run = 0;
    if t.below(if tier == Tier::Thorough { 40 } else { 80 }) == 0 {
        // constructed input: a run of >= 4 pending 0xFF bytes in the range encoder
        // that a carry then resolves
        let (p, r) = gen::carry_stress_plain(t);
        plain = p;
        carry_run = r;
        ep = EP_C_LZMA;
    }
    if t.below(if tier == Tier::Thorough { 400 } else { 100 }) == 0 {
        // the range encoder's low register exactly on a boundary of its emit/defer/carry test
        let (v, mut p) = gen::rc_witness(t.below(16) as usize);
        let extra = t.below(40) as usize;
        p.extend(gen::draw_bytes(t, extra));
        plain = p;
        ep = EP_C_LZMA;
        sc.set_i("rc_boundary", v);
    }
    let mut force_mode: Option<u64> = None;
    if t.below(if tier == Tier::Thorough { 200 } else { 60 }) == 0 {
        // a range-coder body (the output minus its header) of exactly k * B bytes for
        // the buffer sizes code likes to stage output in
        let b = [256u64, 512, 4096, 8192, 16384, 65536][t.below(6) as usize];
        let k = if b >= 16384 { 1 } else { t.range(1, 3) };
        if let Some(p) = crate::rcsearch::plain_with_body_len(t.u64(), b * k) {
            sc.set_i("body_len_target", b * k);
            plain = p;
            ep = EP_C_LZMA;
            force_mode = Some(1 + t.below(2));
        }
    }
    let len = plain.len();
    sc.set_i("ep", ep);
    let drawn_mode = t.below(3);
    sc.set_i("enc_mode", force_mode.unwrap_or(drawn_mode));
    sc.set_i("enc_size", len as u64);
    sc.set_i("rk", [RK_SIM, RK_BUFREADER, RK_SLICE][t.below(3) as usize]);
    sc.set_i("bufcap", t.range(1, 70_000));
    let mut script = gen::draw_script(t);
    if len > 20_000 && script.iter().any(|x| *x != 0 && *x < 16) && t.below(4) != 0 {
        // keep the big cases affordable: mostly coarser fragments
        script = vec![t.range(100, 70_000)];
    }
    sc.set_l("src_script", script);
    if t.below(3) == 0 && len < 20_000 {
        sc.set_l("sink_script", gen::draw_script(t));
    }
    sc.note = format!("{} bytes of plaintext", len);
    if carry_run > 0 {
        sc.note.push_str(&format!("; constructed so that a carry resolves {} pending 0xFF bytes in the range encoder", carry_run));
        sc.set_i("carry_run", carry_run);
    }
    sc.set_b("input", plain);
    sc
}

fn exec(sc: &Scenario, ctx: &mut Ctx) -> Vec<Violation> {
    let ep = sc.i("ep");
    let huge_plain;
    let plain: &[u8] = if sc.i("huge") == 1 {
        ctx.stats.hit("arm.input_longer_than_the_8MiB_dictionary");
        huge_plain = gen::plain_from(sc.i("plain_class"), sc.i("plain_seed"), sc.i("plain_len") as usize);
        &huge_plain
    } else {
        sc.b("input")
    };
    let mode = sc.i("enc_mode");
    // the sink may accept only part of each write (benign short writes, no faults)
    let (mut sink, sink_st) = SimSink::new(None, sc.l("sink_script"), Faults::none(), Faults::none());
    let (v, ro) = run_with_reader(
        ep,
        plain,
        sc.i("rk"),
        sc.l("src_script"),
        Faults::none(),
        sc.i("bufcap") as usize,
        &mut sink,
        &OptSpec::default(),
        &RawSpec::default(),
        mode,
        sc.i("enc_size"),
    );
    let packed: Vec<u8> = sink_st.borrow().accepted.clone();
    if sink_st.borrow().writes > 0 && !sc.l("sink_script").is_empty() {
        ctx.stats.hit("arm.sink_with_scripted_short_writes");
    }
    match ep {
        EP_C_LZMA => match mode {
            0 => ctx.stats.hit("arm.lzma_compress_end_marker"),
            1 => ctx.stats.hit("arm.lzma_compress_size_in_header"),
            _ => ctx.stats.hit("arm.lzma_compress_header_size_skipped"),
        },
        EP_C_LZMA2 => ctx.stats.hit("arm.lzma2_compress"),
        _ => ctx.stats.hit("arm.xz_compress"),
    }
    match plain.len() {
        0 => ctx.stats.hit("probe.empty_input"),
        65535 | 65536 | 65537 => ctx.stats.hit("probe.length_at_64KiB_chunk_boundary"),
        n if n > 65537 => ctx.stats.hit("probe.length_multiple_chunks"),
        _ => {}
    }
    if ro.calls > 2 {
        ctx.stats.hit("probe.reader_fragmented_the_input");
    }
    if sc.has_i("body_len_target") && sc.i("ep") == EP_C_LZMA {
        ctx.stats.hit("arm.compressed_body_length_aimed_at_a_multiple_of_a_buffer_size");
        let hdr = if mode == 2 { 5 } else { 13 };
        if packed.len() as u64 == sc.i("body_len_target") + hdr {
            ctx.stats.hit("probe.compressed_body_is_exactly_the_aimed_multiple");
        }
    }
    if sc.has_i("rc_boundary") {
        ctx.stats.hit("probe.range_encoder_low_exactly_on_a_boundary_at_a_shift");
    }
    if sc.i("carry_run") >= 4 {
        ctx.stats.hit("probe.carry_through_4_or_more_pending_ff_bytes");
    }
    ctx.stats.eval(sc.hash() ^ ro.log, !plain.is_empty(), ro.calls + 1);
    let mk = |class: &str, detail: String| vec![Violation::new(class, ep_name(ep), format!("{} [{}]", detail, sc.note), sc)];
    if let Verdict::Panic(p) = &v {
        return vec![Violation::new("panic", &panic_locus(p), p.clone(), sc)];
    }
    if !v.is_ok() {
        return mk("encoder_failed", v.short());
    }
    // (a) this library, matching decode option
    let (opts, dep) = match ep {
        EP_C_LZMA => (
            match mode {
                0 | 1 => OptSpec::default(),
                _ => OptSpec {
                    mode: 2,
                    provided: Some(plain.len() as u64),
                    ..Default::default()
                },
            },
            EP_LZMA,
        ),
        EP_C_LZMA2 => (OptSpec::default(), EP_LZMA2),
        _ => (OptSpec::default(), EP_XZ),
    };
    let (dv, dout, used) = simple_decode(dep, &packed, &opts, &RawSpec::default());
    if let Verdict::Panic(p) = &dv {
        return vec![Violation::new("panic", &panic_locus(p), p.clone(), sc)];
    }
    if !dv.is_ok() || dout != plain {
        return mk(
            "roundtrip_own_decoder",
            format!("{} does not give back the input: {} ({} bytes, input {})", ep_name(dep), dv.short(), dout.len(), plain.len()),
        );
    }
    if used != packed.len() {
        return mk("roundtrip_own_decoder", format!("own decoder consumed {} of {} emitted bytes", used, packed.len()));
    }
    // (b) the independent reference decoder (strict)
    let r: Result<Vec<u8>, String> = match ep {
        EP_C_LZMA => match mode {
            0 | 1 => ref_lzma_decode(&packed, true, None).and_then(|(o, n)| {
                if n == packed.len() {
                    Ok(o)
                } else {
                    Err(format!("reference consumed {} of {}", n, packed.len()))
                }
            }),
            _ => ref_lzma_decode(&packed, false, Some(Some(plain.len() as u64))).and_then(|(o, n)| {
                if n == packed.len() {
                    Ok(o)
                } else {
                    Err(format!("reference consumed {} of {}", n, packed.len()))
                }
            }),
        },
        EP_C_LZMA2 => ref_lzma2_decode(&packed, true)
            .map_err(|e| format!("{:?}", e))
            .and_then(|(o, n)| {
                if n == packed.len() {
                    Ok(o)
                } else {
                    Err(format!("reference consumed {} of {}", n, packed.len()))
                }
            }),
        _ => ref_xz_decode(&packed),
    };
    match r {
        Ok(o) => {
            if o != plain {
                return mk("not_conformant_reference", "reference decoder yields different bytes".into());
            }
        }
        Err(e) => return mk("not_conformant_reference", format!("reference decoder rejects the emitted bytes: {}", e)),
    }
    // (c) liblzma (everything but the non-standard header-less layout)
    let for_lib: Option<Vec<u8>> = match ep {
        EP_C_LZMA if mode <= 1 => Some(packed.clone()),
        EP_C_LZMA => None,
        EP_C_LZMA2 => Some(wrap_lzma2_in_xz_23(&packed, plain)),
        _ => Some(packed.clone()),
    };
    if let Some(f) = for_lib {
        ctx.stats.hit("probe.checked_with_liblzma");
        match lzma::decompress(&f) {
            Ok(o) => {
                if o != plain {
                    return mk("not_conformant_liblzma", "liblzma yields different bytes".into());
                }
            }
            Err(e) => return mk("not_conformant_liblzma", format!("liblzma rejects the emitted bytes: {:?}", e)),
        }
    }
    Vec::new()
}

fn wrap_lzma2_in_xz_23(payload: &[u8], content: &[u8]) -> Vec<u8> {
    let plan = XzPlan {
        check_id: 1,
        blocks: vec![BlockPlan {
            payload: payload.to_vec(),
            content: content.to_vec(),
            filters: vec![(0x21, vec![23])],
            ..Default::default()
        }],
        ..Default::default()
    };
    build_xz(&plan).bytes
}

pub static C04: SimpleProp = SimpleProp {
    id: "C04",
    level: "exploration",
    rule: "one evaluation = one compression into a sink that accepts whole or (a third of the runs) scripted partial writes (lzma_compress with each of the 3 header options, lzma2_compress, xz_compress) of a plaintext (lengths 0, 1, 65535, 65536, 65537, 2-3 x 64 KiB, small random, and now and then 8 MiB + a little, i.e. longer than the dictionary the encoder announces; content: constant 0x00/0xFF, random, sparse, sawtooth, long runs with surprises, text-like, inputs constructed by a guided search so that a carry resolves >= 4 pending 0xFF bytes in the range encoder, and plaintexts aimed at a compressed body of exactly k x {256..65536} bytes, and four embedded witnesses under which the encoder's low register is exactly 0xFEFFFFFF / 0xFF000000 / 0xFFFFFFFF / 0x100000000 when a byte is shifted out) read through scripted short reads (1 byte, fixed k, random) or a real BufReader of capacity 1..70000; the output must decode to the input with (a) lzma-rs under the matching option, consuming every emitted byte, (b) the strict reference decoder/parser, (c) liblzma (LZMA2 wrapped into .xz by the reference writer; the header-less layout excepted); non-trivial = non-empty plaintext; distinct by (scenario, event log) hash",
    runs_quick: 40_000,
    runs_thorough: 4_000_000,
    both_profiles: false,
    assumptions: &[
        "WriteToHeader(Some(n)) is exercised with n = the true length (the matching option; the library documents that it does not verify n)",
        "liblzma's .lzma detector is used as is; the dictionary size lzma-rs writes (8 MiB) is one it accepts",
    ],
    gen,
    exec,
    enumerate: None,
};
