//! C13 — results do not depend on how the input reader fragments its data.

use super::common::*;
use crate::drive::*;
use crate::env::*;
use crate::gen;
use crate::prng::Tape;
use crate::refmodel::container::build_xz;
use crate::runner::{Ctx, SimpleProp, Tier};
use crate::scenario::{Scenario, Violation};

pub fn mutate(t: &mut Tape, input: &mut Vec<u8>) -> &'static str {
    if input.is_empty() {
        return "none";
    }
    match t.below(8) {
        0 | 1 => "none",
        2 => {
            let i = t.below(input.len() as u64) as usize;
            input[i] ^= 1 << t.below(8);
            "bit flip"
        }
        3 => {
            let n = t.below(input.len() as u64) as usize;
            input.truncate(n);
            "truncated"
        }
        4 => {
            let n = t.range(1, 20) as usize;
            let extra = gen::draw_bytes(t, n);
            input.extend_from_slice(&extra);
            "trailing bytes"
        }
        5 => {
            let i = t.below(input.len() as u64) as usize;
            input[i] = [0u8, 0xFF, 0x80, 1][t.below(4) as usize];
            "byte replaced"
        }
        6 => {
            let n = (input.len() as u64).min(1 + t.below(8)) as usize;
            let k = input.len() - n;
            input.truncate(k);
            "tail cut"
        }
        _ => {
            let i = t.below(input.len() as u64) as usize;
            let j = (i + 1 + t.below(16) as usize).min(input.len());
            let seg: Vec<u8> = input[i..j].to_vec();
            let at = t.below(input.len() as u64 + 1) as usize;
            for (k, b) in seg.iter().enumerate() {
                input.insert(at + k, *b);
            }
            "segment duplicated"
        }
    }
}

fn gen(t: &mut Tape, _tier: Tier) -> Scenario {
    let mut sc = Scenario::new("c13");
    let mut opts = OptSpec::default();
    let mut raw = RawSpec::default();
    let mut input;
    let mut variant = String::new();
    match t.below(5) {
        0 | 1 => {
            let b = gen_lzma(t, 0, 3000);
            opts.mode = t.below(3);
            // a third of the marker-terminated streams are decoded with the true size
            // in effect as well (what the LZMA SDK writes with -eos): the decoder then
            // stops at the size and leaves the marker unread, whatever the reader does
            let both = b.marker && t.below(3) == 0;
            if both {
                sc.set_i("sized_and_marker", 1);
            }
            let size = if b.marker && !both { None } else { Some(b.expect.len() as u64) };
            input = match opts.mode {
                0 => b.file(Some(size.unwrap_or(u64::MAX))),
                1 => {
                    opts.provided = size;
                    b.file(Some(t.u64()))
                }
                _ => {
                    opts.provided = size;
                    b.file(None)
                }
            };
            sc.set_i("ep", EP_LZMA);
        }
        2 => {
            let strict = t.below(4) != 0;
            // now and then the big plans (chunks at the 64 KiB / 2 MiB field limits)
            let b = if t.below(40) == 0 { gen_lzma2(t, 300_000, strict) } else { gen_lzma2(t, 2500, strict) };
            input = b.bytes;
            sc.set_i("ep", [EP_LZMA2, EP_RAW_LZMA2][t.below(2) as usize]);
        }
        3 => {
            let dict = t.range(1, 5000);
            let b = gen_lzma_raw_dict(t, dict, 0, 2000);
            raw = RawSpec {
                lc: b.props.lc,
                lp: b.props.lp,
                pb: b.props.pb,
                dict: dict as u32,
                size: if b.marker { None } else { Some(b.expect.len() as u64) },
                pre: None,
            };
            input = b.payload;
            sc.set_i("ep", EP_RAW_LZMA);
        }
        _ => {
            let mut plan = gen_xz_plan(t, 500);
            if t.below(6) == 0 {
                // a check type outside the supported subset (field size and, for
                // SHA-256, value consistent): refused - by every reader alike
                plan.check_id = [2u8, 3, 5, 6, 7, 8, 9, 10, 10, 10, 11, 12, 13, 14, 15][t.below(15) as usize];
                variant = format!("check ID {}", plan.check_id);
            }
            input = build_xz(&plan).bytes;
            sc.set_i("ep", EP_XZ);
            if t.below(2) == 0 {
                // a stored field replaced with every enclosing CRC recomputed, so
                // that only the field's own validation (e.g. a padding scan that
                // spans several refills) decides the verdict
                let vs = super::c06::field_variants(t, &plan);
                if !vs.is_empty() {
                    // padding variants are the ones whose scan depends on refills
                    let pads: Vec<usize> = (0..vs.len())
                        .filter(|i| vs[*i].1.contains("pad"))
                        .collect();
                    let i = if !pads.is_empty() && t.below(2) == 0 {
                        pads[t.below(pads.len() as u64) as usize]
                    } else {
                        t.below(vs.len() as u64) as usize
                    };
                    input = build_xz(&vs[i].0).bytes;
                    variant = vs[i].2.clone();
                }
            }
        }
    }
    let m = mutate(t, &mut input);
    sc.note = format!("mutation: {}{}", m, if variant.is_empty() { String::new() } else { format!("; CRC-consistent field substitution: {}", variant) });
    sc.set_b("input", input);
    opts.wrapper = t.below(2) == 1;
    opts.store(&mut sc);
    raw.store(&mut sc);
    // reader B: fragmented
    let rk = [RK_SIM, RK_BUFREADER, RK_SIM, RK_CHAIN][t.below(4) as usize];
    sc.set_i("rk", rk);
    let n = sc.b("input").len() as u64;
    sc.set_i("bufcap", if rk == RK_CHAIN { t.below(n + 1) } else { crate::gen::draw_bufcap(t, 64) });
    let mut script = gen::draw_script(t);
    if script.is_empty() {
        script = vec![1];
    }
    sc.set_l("src_script", script);
    sc
}

fn exec(sc: &Scenario, ctx: &mut Ctx) -> Vec<Violation> {
    let ep = sc.i("ep");
    let opts = OptSpec::load(sc);
    let raw = RawSpec::load(sc);
    let input = sc.b("input");
    // A: everything at once
    let mut out_a = Vec::new();
    let (va, ra) = run_with_reader(ep, input, RK_SLICE, &[], Faults::none(), 0, &mut out_a, &opts, &raw, 0, 0);
    // B: fragmented
    let mut out_b = Vec::new();
    let (vb, rb) = run_with_reader(
        ep,
        input,
        sc.i("rk"),
        sc.l("src_script"),
        Faults::none(),
        sc.i("bufcap") as usize,
        &mut out_b,
        &opts,
        &raw,
        0,
        0,
    );
    match va {
        Verdict::Ok => {
            if sc.i("sized_and_marker") == 1 {
                ctx.stats.hit("probe.size_in_effect_and_end_marker_present_decoded_ok");
            }
            ctx.stats.hit("verdict.ok")
        }
        Verdict::Err(_) => ctx.stats.hit("verdict.err"),
        Verdict::Panic(_) => ctx.stats.hit("verdict.panic"),
    }
    if sc.i("rk") == RK_BUFREADER {
        ctx.stats.hit("arm.std_bufreader_over_short_reads");
    } else if sc.i("rk") == RK_CHAIN {
        ctx.stats.hit("arm.std_chain_of_two_slices");
    } else {
        ctx.stats.hit("arm.simsource_scripted_refills");
    }
    ctx.stats.eval(sc.hash() ^ rb.log, rb.calls > 1, ra.calls + rb.calls + 2);
    for v in [&va, &vb] {
        if let Verdict::Panic(p) = v {
            return vec![Violation::new("panic", &panic_locus(p), p.clone(), sc)];
        }
    }
    if va.kind() != vb.kind() {
        return vec![Violation::new(
            "verdict_depends_on_fragmentation",
            ep_name(ep),
            format!("all-at-once: {}; fragmented: {} ({})", va.short(), vb.short(), sc.note),
            sc,
        )];
    }
    if va.is_ok() {
        if out_a != out_b {
            return vec![Violation::new(
                "output_depends_on_fragmentation",
                ep_name(ep),
                format!("outputs differ ({} vs {} bytes)", out_a.len(), out_b.len()),
                sc,
            )];
        }
        if ra.consumed != rb.consumed {
            return vec![Violation::new(
                "consumed_depends_on_fragmentation",
                ep_name(ep),
                format!("consumed {} vs {} bytes", ra.consumed, rb.consumed),
                sc,
            )];
        }
    }
    Vec::new()
}

pub static C13: SimpleProp = SimpleProp {
    id: "C13",
    level: "exploration",
    rule: "(LZMA inputs include marker-terminated streams decoded with the true size in effect as well) one evaluation = one pair of decodes of the same bytes (valid stream of each format - for .xz also CRC-consistent field substitutions incl. integers not in shortest form, and a sixth of the files with a check type outside the supported subset - or bit-flipped / truncated / extended / spliced) — once from a slice exposing everything, once through scripted refills (1 byte, fixed k, random patterns) or a real std BufReader of capacity 1..64 over short reads; verdict kind must match, and on success bytes and consumed count; non-trivial = the fragmented reader needed more than one refill; distinct by (scenario, event log) hash",
    runs_quick: 120_000,
    runs_thorough: 24_000_000,
    both_profiles: false,
    assumptions: &[
        "on Err the reader position is not compared (flush_zero_padding legitimately stops at a buffer-dependent place; nobody can rely on the position after a failure)",
        "error messages are not compared, only Ok/Err",
    ],
    gen,
    exec,
    enumerate: None,
};
