//! C15 — streaming output is always a prefix of the final output and keeps up
//! with the input (crash of the upstream at every prefix, allow_incomplete).

use super::c05::{adversarial_cuts, draw_history};
use super::common::*;
use crate::drive::*;
use crate::env::*;
use crate::prng::Tape;
use crate::runner::{Ctx, SimpleProp, Tier};
use crate::scenario::{Scenario, Violation};
use std::rc::Rc;

pub const LOOKAHEAD: usize = 64;

fn gen(t: &mut Tape, tier: Tier) -> Scenario {
    let mut sc = Scenario::new("c15");
    let long = t.below(10) == 0;
    // a fifth of the streams produce several windows of the smallest dictionary,
    // so that the window reaches the sink while writing (not only at finish)
    let b = if long {
        gen_long(t, 0)
    } else if t.below(5) == 0 {
        gen_lzma(t, 0, 20_000)
    } else {
        gen_lzma(t, 0, 3000)
    };
    let mut opts = OptSpec {
        allow_incomplete: true,
        ..Default::default()
    };
    opts.mode = t.below(3);
    let size = if b.marker { None } else { Some(b.expect.len() as u64) };
    let file = match opts.mode {
        0 => b.std_file(),
        1 => {
            opts.provided = size;
            b.file(Some(t.u64()))
        }
        _ => {
            opts.provided = size;
            b.file(None)
        }
    };
    let hl = opts.header_len();
    // the upstream dies after k bytes
    let k = match t.below(8) {
        0 => file.len(),
        1 => t.range(0, hl as u64 + 5) as usize,
        2 => hl + 5,
        3 => file.len().saturating_sub(t.range(1, 8) as usize),
        _ => t.range(0, file.len() as u64) as usize,
    }
    .min(file.len());
    let (cuts, _) = adversarial_cuts(t, hl, &b, file.len());
    let cuts: Vec<usize> = cuts.into_iter().filter(|c| *c < k).collect();
    let mut ops = draw_history(t, k, &cuts, true);
    if t.below(3) == 0 {
        // a third of the histories offer some of their pieces through write_vectored
        // (three slices in one call) - the caller advances by the count it returns
        for p in ops.chunks_mut(2) {
            if (p[0] == OP_WRITE_N || p[0] == OP_WRITE) && p[1] >= 2 && t.below(2) == 0 {
                p[0] = OP_WRITE_VEC;
                p[1] = (p[1] & 0xFFFF_FFFF) | (t.range(1, 7) << 32);
            }
        }
        sc.set_i("vectored", 1);
    }
    // per-symbol table: (input offset in the file after the symbol, output length)
    let mut tbl = Vec::with_capacity(b.trace.len() * 2);
    for r in &b.trace {
        if r.kind != 4 {
            tbl.push(hl as u64 + r.consumed as u64);
            tbl.push(r.produced as u64);
        }
    }
    sc.note = format!(
        "lc={} lp={} pb={} dict_hdr={} marker={} out={} file={} bytes, upstream dies after {} bytes; longest symbol {} bytes",
        b.props.lc, b.props.lp, b.props.pb, b.dict_hdr, b.marker, b.expect.len(), file.len(), k, b.max_symbol_bytes()
    );
    opts.store(&mut sc);
    sc.set_b("input", file);
    sc.set_b("expect", b.expect);
    sc.set_i("k", k as u64);
    sc.set_i("hl", hl as u64);
    sc.set_l("ops", ops);
    sc.set_l("symtab", tbl);
    // the sink may accept only part of each write (pipe, socket, bounded buffer)
    sc.set_l("sink_script", crate::gen::draw_script(t));
    let every = if tier == Tier::Thorough { 60 } else { 600 };
    if t.below(every) == 0 && sc.b("input").len() <= 1200 {
        sc.set_i("enumerate_prefixes", 1);
    }
    sc
}

/// output bytes fully determined by the first `k` input bytes minus the look-ahead
fn required_output(symtab: &[u64], k: usize) -> usize {
    let mut req = 0usize;
    for p in symtab.chunks(2) {
        if p[0] as usize + LOOKAHEAD <= k {
            req = p[1] as usize;
        } else {
            break;
        }
    }
    req
}

/// smallest lag: input bytes between the end of the last committed symbol and k
fn observed_lag(symtab: &[u64], k: usize, got: usize) -> usize {
    // input offset after the first symbol not fully delivered
    for p in symtab.chunks(2) {
        if p[1] as usize > got {
            return k.saturating_sub(p[0] as usize);
        }
    }
    0
}

fn one_prefix(sc: &Scenario, k: usize, ops: &[u64], ctx: &mut Ctx) -> Option<Violation> {
    let opts = OptSpec::load(sc);
    let input = &sc.b("input")[..k];
    let expect = Rc::new(sc.b("expect").to_vec());
    let (sink, st) = SimSink::new(Some(expect.clone()), sc.l("sink_script"), Faults::none(), Faults::none());
    let o = run_stream(input, ops, &opts, sink, &st, false);
    let v = stream_verdict(&o);
    let s = st.borrow();
    let mk = |class: &str, detail: String| {
        let mut s2 = sc.clone();
        s2.set_i("k", k as u64);
        s2.set_l("ops", ops.to_vec());
        s2.set_i("enumerate_prefixes", 0);
        Some(Violation::new(class, "Stream (allow_incomplete)", detail, &s2))
    };
    ctx.stats.eval(sc.hash() ^ (k as u64).wrapping_mul(0x9E37), k > 0, o.events.len() as u64);
    if let Verdict::Panic(p) = &v {
        return mk("panic", p.clone());
    }
    if let Some(off) = s.first_bad {
        return mk(
            "output_not_prefix",
            format!("after {} input bytes the sink holds byte {} that the complete stream does not decode to", k, off),
        );
    }
    let hl = sc.i("hl") as usize;
    if k >= hl + 5 || k == 0 {
        if !v.is_ok() {
            return mk(
                "finish_fails_on_prefix",
                format!("prefix of {} bytes (header {} + preamble 5 present): {}", k, hl, v.short()),
            );
        }
    }
    if s.short_writes > 0 {
        ctx.stats.hit("probe.sink_accepted_only_part_of_a_write");
    }
    if v.is_ok() {
        let req = required_output(sc.l("symtab"), k);
        let got = s.accepted.len();
        let lag = observed_lag(sc.l("symtab"), k, got);
        ctx.stats.max("max_observed_lag_input_bytes", lag as u64);
        if got < req {
            return mk(
                "output_lags_behind",
                format!(
                    "{} input bytes written; symbols ending {} bytes earlier determine {} output bytes, finish returned only {}",
                    k, LOOKAHEAD, req, got
                ),
            );
        }
        if req > 0 {
            ctx.stats.hit("probe.lag_rule_binding");
        }
    }
    None
}

fn exec(sc: &Scenario, ctx: &mut Ctx) -> Vec<Violation> {
    let k = sc.i("k") as usize;
    let hl = sc.i("hl") as usize;
    if k < hl + 5 {
        ctx.stats.hit("probe.prefix_shorter_than_header_plus_preamble");
    } else if k < sc.b("input").len() {
        ctx.stats.hit("probe.prefix_ends_inside_payload");
    } else {
        ctx.stats.hit("probe.complete_stream");
    }
    if sc.i("vectored") == 1 {
        ctx.stats.hit("arm.pieces_offered_through_write_vectored");
    }
    if let Some(v) = one_prefix(sc, k, sc.l("ops"), ctx) {
        return vec![v];
    }
    if sc.i("enumerate_prefixes") == 1 {
        ctx.stats.hit("arm.streams_with_every_prefix_enumerated");
        let n = sc.b("input").len();
        for kk in 0..=n {
            // two histories per prefix: one piece, and 7-byte pieces
            let one = [OP_WRITE_ALL, 0, OP_PEEK, 0, OP_FINISH, 0];
            if let Some(v) = one_prefix(sc, kk, &one, ctx) {
                return vec![v];
            }
            let mut ops = Vec::new();
            for _ in 0..(kk / 7 + 1) {
                ops.extend_from_slice(&[OP_WRITE_N, 7]);
            }
            ops.extend_from_slice(&[OP_WRITE_ALL, 0, OP_FINISH, 0]);
            if let Some(v) = one_prefix(sc, kk, &ops, ctx) {
                return vec![v];
            }
        }
    }
    Vec::new()
}

pub static C15: SimpleProp = SimpleProp {
    id: "C15",
    level: "exploration",
    rule: "one evaluation = one (valid stream, prefix length k = where the upstream died, history over that prefix; a third of the histories offer some pieces as three slices through write_vectored) run of Stream with allow_incomplete: every sink byte is compared online with the model output; after finish the delivered length must cover every symbol whose input ends >= 64 bytes before k (reference encoder's per-symbol table); k >= header+5 (or k = 0) must finish Ok. For a sample of streams every k is enumerated (two histories each). Non-trivial = k > 0; distinct by (scenario, k) hash",
    runs_quick: 100_000,
    runs_thorough: 5_000_000,
    both_profiles: false,
    assumptions: &[
        "the lag is only observable at finish (the circular window reaches the sink on wrap or finish); during writing only prefix-ness is checked",
        "the per-symbol (input offset, output length) table comes from the reference encoder and equals the reference decoder's trace (self-test)",
    ],
    gen,
    exec,
    enumerate: None,
};
