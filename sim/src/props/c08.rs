//! C08 — LZMA size and end-of-stream rules hold for every option combination.

use super::c05::draw_history;
use super::common::*;
use crate::drive::*;
use crate::env::*;
use crate::prng::Tape;
use crate::refmodel::codec::{DecErr, Props, RefDec};
use crate::runner::{Ctx, SimpleProp, Tier};
use crate::scenario::{Scenario, Violation};

fn gen(t: &mut Tape, _tier: Tier) -> Scenario {
    let mut sc = Scenario::new("c08");
    // a quarter of the streams may run to several windows of the smallest dictionaries
    let b = if t.below(12) == 0 { gen_long(t, 0) } else if t.below(4) == 0 { gen_lzma(t, 0, 30_000) } else { gen_lzma(t, 0, 2500) };
    let mut opts = OptSpec::default();
    opts.mode = t.below(3);
    let l = b.expect.len() as u64;
    let size_values = |t: &mut Tape| -> u64 {
        match t.below(9) {
            0 => u64::MAX,
            1 => l.saturating_sub(1),
            2 => l + 1,
            3 => 0,
            4 => [1u64 << 63, u64::MAX - 1, (1 << 63) | l, 1 << 32, (1 << 32) + l][t.below(5) as usize],
            5 => l + t.range(2, 300),
            6 => l.saturating_sub(t.range(2, 300)),
            _ => l,
        }
    };
    let header_field = size_values(t);
    let supplied = match t.below(10) {
        0 => None,
        // the edges of the type: all-ones means "unknown" in a header field, but is an
        // ordinary (unreachable) size when the caller supplies it
        9 => Some([u64::MAX, u64::MAX - 1, 1 << 63, 1 << 32][t.below(4) as usize]),
        1 => Some(l.saturating_sub(1)),
        2 => Some(l + 1),
        3 => Some(0),
        4 => Some(l + t.range(2, 300)),
        5 => Some(l.saturating_sub(t.range(2, 300))),
        _ => {
            if b.marker && t.below(2) == 0 {
                None
            } else {
                Some(l)
            }
        }
    };
    let mut input = match opts.mode {
        0 => b.file(Some(header_field)),
        1 => {
            opts.provided = supplied;
            b.file(Some(header_field))
        }
        _ => {
            opts.provided = supplied;
            b.file(None)
        }
    };
    // truncation fault: cut 1..8 bytes off the tail; or bytes after the end
    let tail = match t.below(6) {
        0 => {
            let n = (t.range(1, 8) as usize).min(input.len());
            input.truncate(input.len() - n);
            format!("tail cut by {}", n)
        }
        1 => {
            let n = t.range(1, 6) as usize;
            let zeros = t.below(2) == 0;
            for _ in 0..n {
                let b = t.byte();
                input.push(if zeros { 0 } else { b });
            }
            format!("{} {}bytes appended", n, if zeros { "zero " } else { "" })
        }
        _ => "intact".to_string(),
    };
    let through_stream = t.below(3) == 0;
    if through_stream {
        sc.set_i("ep", EP_STREAM);
        // with flush / get_output / empty writes in between: none of them changes what is delivered
        let ops = draw_history(t, input.len(), &[], true);
        sc.set_l("ops", ops);
    } else {
        sc.set_i("ep", EP_LZMA);
    }
    let rk = [RK_SLICE, RK_SIM, RK_BUFREADER, RK_CHAIN, RK_CURSOR][t.below(5) as usize];
    sc.set_i("rk", rk);
    sc.set_i("bufcap", if rk == RK_CHAIN { t.below(20) } else { crate::gen::draw_bufcap(t, 40) });
    sc.set_l("src_script", crate::gen::draw_script(t));
    sc.note = format!(
        "lc={} lp={} pb={} dict_hdr={} true length {} marker={} header size field {} {}; {}",
        b.props.lc,
        b.props.lp,
        b.props.pb,
        b.dict_hdr,
        l,
        b.marker,
        if opts.mode == 2 { "absent".to_string() } else { format!("{}", header_field) },
        match opts.mode {
            0 => "ReadFromHeader".to_string(),
            1 => format!("ReadHeaderButUseProvided({:?})", opts.provided),
            _ => format!("UseProvided({:?})", opts.provided),
        },
        tail
    );
    opts.store(&mut sc);
    sc.set_b("input", input);
    sc.set_b("model", b.expect);
    let mut bounds: Vec<u64> = b.trace.iter().filter(|r| r.kind != 4).map(|r| r.produced as u64).collect();
    bounds.dedup();
    sc.set_l("boundaries", bounds);
    sc
}

/// What the format rules say about these bytes under these options, computed
/// by the reference decoder on the correctly laid out input.
struct Rule {
    /// the size in effect
    size: Option<u64>,
    must_reject: Option<&'static str>,
    /// reference output (valid up to where the reference decoder got)
    ref_out: Vec<u8>,
    ref_ok: bool,
    /// output lengths at those symbol boundaries of the reference decoding at
    /// which all input is consumed and the code register is 0 (the only places
    /// where the lenient marker-less success is legitimate)
    ref_bounds: Vec<u32>,
}

fn rules(sc: &Scenario) -> Option<Rule> {
    let opts = OptSpec::load(sc);
    let input = sc.b("input");
    let hl = opts.header_len();
    if input.len() < hl {
        return Some(Rule {
            size: None,
            must_reject: Some("input ends inside the header"),
            ref_out: Vec::new(),
            ref_ok: false,
            ref_bounds: Vec::new(),
        });
    }
    let props = Props::from_byte(input[0])?;
    let dict = (u32::from_le_bytes([input[1], input[2], input[3], input[4]]) as u64).max(4096);
    let size = match opts.mode {
        0 => {
            let mut b8 = [0u8; 8];
            b8.copy_from_slice(&input[5..13]);
            let v = u64::from_le_bytes(b8);
            if v == u64::MAX {
                None
            } else {
                Some(v)
            }
        }
        _ => opts.provided,
    };
    let payload = &input[hl..];
    let mut d = RefDec::new(props, dict);
    d.keep_trace = true;
    let r = d.decode_segment(payload, size, true);
    let mut must_reject = None;
    let mut ref_ok = false;
    match (&r, size) {
        (Ok(end), Some(_)) => {
            let _ = end;
            ref_ok = true;
        }
        (Ok(end), None) => {
            if end.consumed < payload.len() {
                must_reject = Some("bytes after the end marker");
            } else {
                ref_ok = true;
            }
        }
        (Err(DecErr::Overshoot), Some(_)) => must_reject = Some("a match overshoots the size in effect"),
        (Err(DecErr::UnexpectedMarker), Some(_)) => must_reject = Some("end marker met before the size in effect was reached"),
        (Err(DecErr::InputExhausted), Some(_)) => {
            // one-byte band: only demand an error if one more input byte would
            // still not be enough
            let mut p2 = payload.to_vec();
            p2.push(0);
            let mut d2 = RefDec::new(props, dict);
            if matches!(d2.decode_segment(&p2, size, true), Err(DecErr::InputExhausted)) {
                must_reject = Some("input runs out before the size in effect is reached");
            }
        }
        _ => {}
    }
    let ref_bounds = d
        .trace
        .iter()
        .zip(d.codes.iter())
        .filter(|(r, c)| r.kind != 4 && **c == 0 && r.consumed as usize == payload.len())
        .map(|(r, _)| r.produced)
        .collect();
    Some(Rule {
        size,
        must_reject,
        ref_out: d.model.out,
        ref_ok,
        ref_bounds,
    })
}

fn exec(sc: &Scenario, ctx: &mut Ctx) -> Vec<Violation> {
    let opts = OptSpec::load(sc);
    let ep = sc.i("ep");
    let input = sc.b("input");
    let (v, got) = if ep == EP_STREAM {
        let (sink, st) = SimSink::benign(None);
        let o = run_stream(input, sc.l("ops"), &opts, sink, &st, false);
        let g = st.borrow().accepted.clone();
        (stream_verdict(&o), g)
    } else {
        // the rules do not depend on the reader: the one-shot decoder is driven
        // through the reader behaviour the scenario names
        let mut out = Vec::new();
        let (v, _) = run_with_reader(
            EP_LZMA,
            input,
            sc.i("rk"),
            sc.l("src_script"),
            Faults::none(),
            sc.i("bufcap") as usize,
            &mut out,
            &opts,
            &RawSpec::default(),
            0,
            0,
        );
        (v, out)
    };
    let rule = match rules(sc) {
        Some(r) => r,
        None => return Vec::new(),
    };
    match opts.mode {
        0 => ctx.stats.hit("arm.read_from_header"),
        1 => ctx.stats.hit("arm.read_header_but_use_provided"),
        _ => ctx.stats.hit("arm.use_provided_5_byte_header"),
    }
    if ep == EP_STREAM {
        ctx.stats.hit("arm.through_stream");
    }
    match rule.must_reject {
        Some("a match overshoots the size in effect") => ctx.stats.hit("probe.match_overshoots_size"),
        Some("end marker met before the size in effect was reached") => ctx.stats.hit("probe.marker_before_size"),
        Some("input runs out before the size in effect is reached") => ctx.stats.hit("probe.input_runs_out_before_size"),
        Some("bytes after the end marker") => ctx.stats.hit("probe.bytes_after_marker"),
        Some(_) => ctx.stats.hit("probe.other_must_reject"),
        None => {}
    }
    if rule.size.is_some() {
        ctx.stats.hit("probe.size_in_effect");
    } else {
        ctx.stats.hit("probe.no_size_in_effect");
    }
    match v {
        Verdict::Ok => ctx.stats.hit("verdict.ok"),
        _ => ctx.stats.hit("verdict.err"),
    }
    ctx.stats.eval(sc.hash(), true, 2);
    let mk = |class: &str, detail: String| vec![Violation::new(class, ep_name(ep), format!("{} [{}]", detail, sc.note), sc)];
    if let Verdict::Panic(p) = &v {
        return vec![Violation::new("panic", &panic_locus(p), p.clone(), sc)];
    }
    if ep == EP_STREAM && input.is_empty() {
        return Vec::new();
    }
    if v.is_ok() {
        if let Some(why) = rule.must_reject {
            return mk("accepts_against_size_rules", format!("success although {}", why));
        }
        if let Some(n) = rule.size {
            if got.len() as u64 != n {
                return mk(
                    "wrong_length_on_success",
                    format!("size in effect {} but {} bytes were produced", n, got.len()),
                );
            }
            if rule.ref_out.len() >= got.len() && got[..] != rule.ref_out[..got.len()] {
                return mk("wrong_bytes_on_success", "output differs from the reference decoding".into());
            }
        } else {
            // no size in effect: success means the marker was reached with nothing after it,
            // or (lenient, not forbidden) the input ended exactly on a symbol boundary
            if rule.ref_ok {
                if got != rule.ref_out {
                    return mk("wrong_bytes_on_success", "output differs from the reference decoding".into());
                }
            } else {
                // the bytes (possibly cut or extended) decode, symbol by symbol, to
                // rule.ref_out until the input runs out; lenient success must stop at
                // one of those symbol boundaries
                let on_boundary = rule.ref_bounds.contains(&(got.len() as u32))
                    || (got.is_empty() && payload_is_bare_preamble(sc));
                let is_prefix = got.len() <= rule.ref_out.len() && got[..] == rule.ref_out[..got.len()];
                if !(on_boundary && is_prefix) {
                    return mk(
                        "accepts_without_marker",
                        format!("no size in effect, no complete marker, yet success with {} bytes that are not a symbol-boundary prefix", got.len()),
                    );
                }
                ctx.stats.hit("probe.lenient_markerless_success_on_symbol_boundary");
            }
        }
    } else if rule.ref_ok && rule.must_reject.is_none() {
        // well-formed under the options in effect: must be accepted
        return mk("rejects_well_formed", format!("{}", v.short()));
    }
    Vec::new()
}

pub static C08: SimpleProp = SimpleProp {
    id: "C08",
    level: "exploration",
    rule: "one evaluation = one decode (one-shot, or Stream under a random history) of a reference-encoded stream laid out for the option in force (13/13/5 header bytes) with header size field in {all-ones, true, true±1, 0, 2^63, true±k}, supplied size in {none, true, ±1, 0, ±k}, marker present/absent, tail cut by 1-8 bytes or extended; the format rules (size in effect, overshoot, early marker, input running out with a one-byte band, bytes after the marker) are computed by the reference decoder on the same bytes; distinct by scenario hash; all non-trivial",
    runs_quick: 100_000,
    runs_thorough: 6_000_000,
    both_profiles: false,
    assumptions: &[
        "a marker-less stream that ends exactly on a symbol boundary with code register 0 may succeed (current lenient behaviour, which the statement does not forbid) provided the output is the model prefix at that boundary",
        "eager vs lazy normalisation: an error is demanded for missing input only when one more byte would still be insufficient",
    ],
    gen,
    exec,
    enumerate: None,
};

/// exactly the 5-byte preamble with code 0 and nothing decoded yet
fn payload_is_bare_preamble(sc: &Scenario) -> bool {
    let opts = OptSpec::load(sc);
    let input = sc.b("input");
    let hl = opts.header_len();
    input.len() == hl + 5 && input[hl + 1..hl + 5] == [0, 0, 0, 0]
}
