//! C12 — I/O failures propagate as errors and never corrupt what was already
//! written. Fault enumeration over every source call, sink write and flush.

use super::common::*;
use crate::drive::*;
use crate::env::*;
use crate::gen;
use crate::prng::Tape;
use crate::runner::{Ctx, Property, Tier};
use crate::scenario::{Scenario, Violation};
use std::rc::Rc;

pub struct C12;

#[derive(Default, Clone, Copy)]
struct Counts {
    src_calls: u64,
    sink_writes: u64,
    sink_flushes: u64,
}

fn gen_base(t: &mut Tape) -> Scenario {
    let mut sc = Scenario::new("c12");
    let ep = [
        EP_LZMA, EP_LZMA2, EP_XZ, EP_STREAM, EP_C_LZMA, EP_C_LZMA2, EP_C_XZ, EP_RAW_LZMA,
        EP_RAW_LZMA2,
    ][t.below(9) as usize];
    sc.set_i("ep", ep);
    let mut opts = OptSpec::default();
    let mut raw = RawSpec::default();
    match ep {
        EP_LZMA | EP_STREAM => {
            // the streaming decoder hands bytes to the sink during write() only when
            // its window wraps: a third of its inputs span several windows
            // (the one-shot decoder likewise writes at every wrap)
            let b = if t.below(3) == 0 { gen_lzma(t, 0, 20_000) } else { gen_lzma(t, 0, 1200) };
            // all three header options
            opts.mode = t.below(3);
            // a third of the runs allow incomplete input: Stream's finish then skips
            // its last decode pass (the sink may lack the look-ahead tail, see C15/C16);
            // the one-shot decoder does not know the option, for it nothing changes
            opts.allow_incomplete = t.below(3) == 0;
            let input = match opts.mode {
                0 => b.std_file(),
                1 => {
                    opts.provided = if b.marker { None } else { Some(b.expect.len() as u64) };
                    b.file(Some(t.u64()))
                }
                _ => {
                    opts.provided = if b.marker { None } else { Some(b.expect.len() as u64) };
                    b.file(None)
                }
            };
            sc.note = format!(
                "lc={} lp={} pb={} dict={} marker={} out={}",
                b.props.lc,
                b.props.lp,
                b.props.pb,
                b.dict_hdr,
                b.marker,
                b.expect.len()
            );
            sc.set_b("input", input);
            sc.set_b("expect", b.expect);
        }
        EP_RAW_LZMA => {
            let dict = t.range(1, 64);
            let b = gen_lzma_raw_dict(t, dict, 0, 600);
            raw = RawSpec {
                lc: b.props.lc,
                lp: b.props.lp,
                pb: b.props.pb,
                dict: dict as u32,
                size: if b.marker { None } else { Some(b.expect.len() as u64) },
                pre: None,
            };
            sc.note = format!("raw dict={} marker={} out={}", dict, b.marker, b.expect.len());
            sc.set_b("input", b.payload);
            sc.set_b("expect", b.expect);
        }
        EP_LZMA2 | EP_RAW_LZMA2 => {
            let b = gen_lzma2(t, 1500, true);
            sc.note = format!("chunks: {}", b.note);
            sc.set_b("input", b.bytes);
            sc.set_b("expect", b.expect);
        }
        EP_XZ => {
            let plan = gen_xz_plan(t, 600);
            let built = crate::refmodel::container::build_xz(&plan);
            sc.note = format!("xz blocks={} check={}", plan.blocks.len(), plan.check_id);
            sc.set_b("input", built.bytes);
            sc.set_b("expect", built.content);
        }
        _ => {
            // encoders: plaintext; the expected output is the fault-free output
            let len = match t.below(12) {
                0 => 0,
                1 => 1,
                11 if t.below(6) == 0 => [65535u64, 65536, 65537][t.below(3) as usize],
                _ => t.range(2, 700),
            } as usize;
            let plain = gen::draw_plain(t, len);
            sc.set_i("enc_mode", t.below(3));
            sc.set_i("enc_size", len as u64);
            sc.note = format!("plaintext {} bytes", len);
            sc.set_b("input", plain);
        }
    }
    opts.store(&mut sc);
    raw.store(&mut sc);
    sc.set_i("rk", if ep == EP_STREAM { RK_SLICE } else { [RK_SIM, RK_SIM, RK_BUFREADER, RK_SIM_ANYCALL][t.below(4) as usize] });
    sc.set_i("bufcap", gen::draw_bufcap(t, 64));
    sc.set_l("src_script", gen::draw_script(t));
    sc.set_l("sink_script", gen::draw_script(t));
    if ep == EP_STREAM {
        // history: how the caller cuts the input into write calls
        let mut ops = Vec::new();
        let style = t.below(3);
        let n = sc.b("input").len() as u64;
        match style {
            0 => {}
            1 => {
                let k = t.range(1, 40);
                let mut left = n;
                while left > 0 && ops.len() < 400 {
                    ops.extend_from_slice(&[OP_WRITE, k]);
                    left = left.saturating_sub(k);
                }
            }
            _ => {
                for _ in 0..t.range(1, 12) {
                    ops.extend_from_slice(&[OP_WRITE, t.range(0, 30)]);
                    if t.below(4) == 0 {
                        ops.extend_from_slice(&[OP_FLUSH, 0]);
                    }
                }
            }
        }
        ops.extend_from_slice(&[OP_WRITE_ALL, 0]);
        if t.below(3) == 0 {
            ops.extend_from_slice(&[OP_FLUSH, 0]);
        }
        ops.extend_from_slice(&[OP_FINISH, 0]);
        sc.set_l("ops", ops);
    }
    sc
}

struct Outcome {
    v: Verdict,
    counts: Counts,
    fired_hard: u32,
    fired_retry: u32,
    accepted: Vec<u8>,
    first_bad: Option<usize>,
    flushed_len: usize,
    flushes: u64,
    log: u64,
    short_writes: u64,
    /// Stream only: (op, returned Ok, a hard sink fault fired during the call)
    calls: Vec<(u64, bool, bool)>,
}

fn execute(sc: &Scenario) -> Outcome {
    let ep = sc.i("ep");
    let opts = OptSpec::load(sc);
    let raw = RawSpec::load(sc);
    let expect = if sc.has_b("expect") {
        Some(Rc::new(sc.b("expect").to_vec()))
    } else {
        None
    };
    let (mut sink, st) = SimSink::new(
        expect,
        sc.l("sink_script"),
        Faults::from_list(sc.l("sink_wfaults")),
        Faults::from_list(sc.l("sink_ffaults")),
    );
    let src_faults = Faults::from_list(sc.l("src_faults"));
    let mut calls = Vec::new();
    let (v, ro) = if ep == EP_STREAM {
        let o = run_stream(sc.b("input"), sc.l("ops"), &opts, sink, &st, false);
        for e in &o.events {
            calls.push((e.op, e.result.is_ok(), e.fault_fired));
        }
        (stream_verdict(&o), ReadOutcome::default())
    } else {
        run_with_reader(
            ep,
            sc.b("input"),
            sc.i("rk"),
            sc.l("src_script"),
            src_faults,
            sc.i("bufcap") as usize,
            &mut sink,
            &opts,
            &raw,
            sc.i("enc_mode"),
            sc.i("enc_size"),
        )
    };
    let s = st.borrow();
    Outcome {
        v,
        counts: Counts {
            src_calls: ro.calls,
            sink_writes: s.writes,
            sink_flushes: s.flushes,
        },
        fired_hard: ro.fired_hard + s.fired_hard,
        fired_retry: ro.fired_retryable + s.fired_retryable,
        accepted: s.accepted.clone(),
        first_bad: s.first_bad,
        flushed_len: s.flushed_len,
        flushes: s.flushes,
        log: ro.log ^ s.log.rotate_left(17),
        short_writes: s.short_writes,
        calls,
    }
}

fn must_flush(ep: u64) -> bool {
    matches!(ep, EP_LZMA | EP_LZMA2 | EP_RAW_LZMA | EP_RAW_LZMA2)
}

/// Judge one executed scenario. `faulty`: a fault plan is present.
fn judge(sc: &Scenario, o: &Outcome) -> Option<Violation> {
    let ep = sc.i("ep");
    let epn = ep_name(ep);
    // with incomplete input allowed a successful finish may lack the look-ahead tail
    let may_be_short = ep == EP_STREAM && OptSpec::load(sc).allow_incomplete;
    if let Verdict::Panic(p) = &o.v {
        return Some(Violation::new(
            "panic",
            &format!("{}: {}", epn, panic_locus(p)),
            p.clone(),
            sc,
        ));
    }
    if let Some(off) = o.first_bad {
        return Some(Violation::new(
            "sink_not_prefix",
            epn,
            format!(
                "byte {} accepted by the sink is not the byte of the correct output (expected len {})",
                off,
                sc.b("expect").len()
            ),
            sc,
        ));
    }
    if ep == EP_STREAM && o.fired_hard > 0 {
        // per-call rule: the call during which the sink failed must itself fail
        for (i, (op, ok, fired)) in o.calls.iter().enumerate() {
            if *fired && *ok {
                return Some(Violation::new(
                    "fault_swallowed",
                    epn,
                    format!(
                        "call #{} (op {}) returned Ok although a hard sink fault fired during it",
                        i, op
                    ),
                    sc,
                ));
            }
        }
        let only_in_flush_ops = o.calls.iter().all(|(op, _, fired)| !*fired || *op == OP_FLUSH);
        if only_in_flush_ops {
            // the failure was reported by flush() itself; the stream may go on and
            // then has to deliver the complete output
            if o.v.is_ok() && o.accepted.len() != sc.b("expect").len() && !(may_be_short && o.accepted.len() < sc.b("expect").len()) {
                return Some(Violation::new(
                    "output_incomplete",
                    epn,
                    format!("after a failed explicit flush the stream finished Ok with {} of {} bytes", o.accepted.len(), sc.b("expect").len()),
                    sc,
                ));
            }
            return None;
        }
    }
    if o.fired_hard > 0 {
        if !o.v.is_err() {
            return Some(Violation::new(
                "fault_swallowed",
                epn,
                format!(
                    "a hard I/O fault fired ({} time(s)) but the call returned {}; sink holds {} of {} bytes",
                    o.fired_hard,
                    o.v.short(),
                    o.accepted.len(),
                    sc.b("expect").len()
                ),
                sc,
            ));
        }
        return None;
    }
    // no hard fault fired
    if o.fired_retry > 0 && o.v.is_err() {
        return None; // retryable kind: Err is acceptable
    }
    if !o.v.is_ok() {
        return Some(Violation::new(
            "clean_run_failed",
            epn,
            format!("no hard fault fired but the call returned {}", o.v.short()),
            sc,
        ));
    }
    if sc.has_b("expect") && o.accepted.len() != sc.b("expect").len() && !(may_be_short && o.accepted.len() < sc.b("expect").len()) {
        return Some(Violation::new(
            "output_incomplete",
            epn,
            format!(
                "success, but the sink received {} of {} bytes ({} short writes)",
                o.accepted.len(),
                sc.b("expect").len(),
                o.short_writes
            ),
            sc,
        ));
    }
    if must_flush(ep) && (o.flushes == 0 || o.flushed_len != o.accepted.len()) {
        return Some(Violation::new(
            "not_flushed",
            epn,
            format!(
                "success, but the sink was last flushed at {} of {} bytes ({} flush calls)",
                o.flushed_len,
                o.accepted.len(),
                o.flushes
            ),
            sc,
        ));
    }
    None
}

fn fault_tag(site: u64, kind: u64) -> (&'static str, &'static str) {
    match (site, kind) {
        (0, FK_OTHER) => ("fault.configured.source_other", "fault.fired.source_other"),
        (0, FK_WOULDBLOCK) => ("fault.configured.source_would_block", "fault.fired.source_would_block"),
        (0, FK_UNEXPECTED_EOF) => ("fault.configured.source_unexpected_eof", "fault.fired.source_unexpected_eof"),
        (0, FK_INTERRUPTED) => ("fault.configured.source_eintr", "fault.fired.source_eintr"),
        (1, FK_OTHER) => ("fault.configured.sink_write_other", "fault.fired.sink_write_other"),
        (1, FK_WOULDBLOCK) => ("fault.configured.sink_write_would_block", "fault.fired.sink_write_would_block"),
        (1, FK_INTERRUPTED) => ("fault.configured.sink_write_eintr", "fault.fired.sink_write_eintr"),
        (1, FK_WRITE_ZERO) => ("fault.configured.sink_write_zero", "fault.fired.sink_write_zero"),
        (1, FK_DISK_FULL) => ("fault.configured.sink_disk_full", "fault.fired.sink_disk_full"),
        (2, FK_INTERRUPTED) => ("fault.configured.sink_flush_eintr", "fault.fired.sink_flush_eintr"),
        (2, _) => ("fault.configured.sink_flush_error", "fault.fired.sink_flush_error"),
        _ => ("fault.configured.other", "fault.fired.other"),
    }
}

const SRC_KINDS: [u64; 4] = [FK_OTHER, FK_WOULDBLOCK, FK_UNEXPECTED_EOF, FK_INTERRUPTED];
const SINK_KINDS: [u64; 5] = [FK_OTHER, FK_WOULDBLOCK, FK_WRITE_ZERO, FK_DISK_FULL, FK_INTERRUPTED];

impl C12 {
    fn one(&self, sc: &Scenario, ctx: &mut Ctx, site: Option<(u64, u64)>) -> (Option<Violation>, Outcome) {
        ctx.begin(sc);
        let o = execute(sc);
        let v = judge(sc, &o);
        let fired = o.fired_hard + o.fired_retry > 0;
        if let Some((site, kind)) = site {
            let (c, f) = fault_tag(site, kind);
            ctx.stats.hit(c);
            if fired {
                ctx.stats.hit(f);
            }
        } else {
            ctx.stats.hit("arm.fault_free");
            if o.short_writes > 0 {
                ctx.stats.hit("probe.short_writes_in_fault_free_run");
            }
        }
        if fired && sc.i("ep") == EP_STREAM && o.calls.iter().any(|(op, _, f)| *f && matches!(*op, OP_WRITE | OP_WRITE_ALL | OP_WRITE_N)) {
            ctx.stats.hit("probe.sink_fault_fired_inside_stream_write");
        }
        if fired && site.map(|s| s.0) == Some(0) && sc.i("rk") == RK_SIM_ANYCALL {
            ctx.stats.hit("fault.fired.source_error_on_a_call_that_may_have_bytes_buffered");
        }
        if fired {
            ctx.stats.hit("arm.fault_fired");
            if !o.accepted.is_empty() && o.accepted.len() < sc.b("expect").len() {
                ctx.stats.hit("probe.fault_with_partial_output_in_sink");
            }
        }
        match &o.v {
            Verdict::Ok => ctx.stats.hit("verdict.ok"),
            Verdict::Err(_) => ctx.stats.hit("verdict.err"),
            Verdict::Panic(_) => ctx.stats.hit("verdict.panic"),
        }
        let events = o.counts.src_calls + o.counts.sink_writes + o.counts.sink_flushes + sc.l("ops").len() as u64 / 2;
        // non-trivial: a fault fired, or the fault-free run made at least one sink write
        let nontrivial = fired || o.counts.sink_writes > 0;
        ctx.stats.eval(sc.hash() ^ o.log, nontrivial, events);
        (v, o)
    }
}

impl Property for C12 {
    fn id(&self) -> &'static str {
        "C12"
    }
    fn level(&self) -> &'static str {
        "fault_enumeration"
    }
    fn rule(&self) -> &'static str {
        "one evaluation = one (input, entry point, source/sink scripts, fault plan) execution of the real code; per seeded input a fault-free pilot counts the source calls (refills of a buffered source, or - for a quarter of the non-Stream runs - every read/fill_buf call, which may then fail also while bytes are still buffered), sink writes and flushes, then one fault is injected at a call index (quick: sampled; thorough: every index of every site, kinds rotated); distinct = distinct (scenario, event-log) hash; non-trivial = the fault actually fired, or the fault-free run made >= 1 sink write"
    }
    fn runs(&self, tier: Tier) -> u64 {
        match tier {
            Tier::Quick => 20_000,
            Tier::Thorough => 400_000,
        }
    }
    fn assumptions(&self) -> Vec<&'static str> {
        vec![
            "the expected decoder output comes from the reference LZ model; the expected encoder output is the fault-free output of the same encoder under the same source script (its correctness is C04's subject)",
            "a fault that was scripted but never reached does not oblige an error (only fired faults do)",
            "io::ErrorKind::Interrupted is retryable: Err or exact success are both accepted",
            "for Stream the rule is per call: the write/flush/finish call during which the sink failed must itself return Err; after a failed explicit flush() the stream may continue and must then deliver the complete output",
        ]
    }
    fn run(&self, t: &mut Tape, ctx: &mut Ctx) -> Vec<Violation> {
        let mut base = gen_base(t);
        let ep = base.i("ep");
        if ep >= EP_C_LZMA {
            // expected output of an encoder = its own fault-free output with the
            // same source script and a well-behaved sink
            let mut out = Vec::new();
            let (v, _) = run_with_reader(
                ep,
                base.b("input"),
                base.i("rk"),
                base.l("src_script"),
                Faults::none(),
                base.i("bufcap") as usize,
                &mut out,
                &OptSpec::default(),
                &RawSpec::default(),
                base.i("enc_mode"),
                base.i("enc_size"),
            );
            if !v.is_ok() {
                return vec![Violation::new(
                    "clean_run_failed",
                    ep_name(ep),
                    format!("encoder with a well-behaved sink returned {}", v.short()),
                    &base,
                )];
            }
            base.set_b("expect", out);
        }
        // pilot: same scripts, no fault
        let (v, pilot) = self.one(&base, ctx, None);
        if let Some(v) = v {
            return vec![v];
        }
        let c = pilot.counts;
        // fault sites: 0 source call, 1 sink write, 2 sink flush
        let mut plan: Vec<(u64, u64, u64)> = Vec::new();
        let thorough = ctx.tier == Tier::Thorough;
        let salt = t.below(20);
        let mut push_site = |site: u64, n: u64, kinds: &[u64], plan: &mut Vec<(u64, u64, u64)>| {
            for k in 1..=n {
                let kind = kinds[((k + salt) % kinds.len() as u64) as usize];
                plan.push((site, k, kind));
            }
        };
        push_site(0, c.src_calls, &SRC_KINDS, &mut plan);
        push_site(1, c.sink_writes, &SINK_KINDS, &mut plan);
        push_site(2, c.sink_flushes, &[FK_OTHER, FK_INTERRUPTED], &mut plan);
        let cap = if thorough { 4000 } else { 24 };
        if plan.len() > cap {
            // sample without replacement, keeping first and last index of each site
            let mut keep: Vec<(u64, u64, u64)> = Vec::new();
            let total = plan.len();
            for _ in 0..cap {
                let i = t.below(total as u64) as usize;
                keep.push(plan[i]);
            }
            // the first and the last call of every site (e.g. the end-of-file
            // probe, the final flush) are always tried
            for site in 0..3u64 {
                if let Some(f) = plan.iter().find(|p| p.0 == site) {
                    keep.push(*f);
                }
                if let Some(l) = plan.iter().rev().find(|p| p.0 == site) {
                    keep.push(*l);
                    // the last call also with a hard kind (kinds rotate by index)
                    if l.2 == FK_INTERRUPTED {
                        keep.push((l.0, l.1, FK_OTHER));
                    }
                }
            }
            plan = keep;
        } else {
            ctx.stats.hit("probe.inputs_with_every_fault_index_enumerated");
        }
        for (site, k, kind) in plan {
            let mut sc = base.clone();
            let key = ["src_faults", "sink_wfaults", "sink_ffaults"][site as usize];
            sc.set_l(key, vec![k, kind]);
            let (v, _) = self.one(&sc, ctx, Some((site, kind)));
            if let Some(v) = v {
                return vec![v];
            }
        }
        Vec::new()
    }
    fn replay(&self, sc: &Scenario, ctx: &mut Ctx) -> Vec<Violation> {
        let faulty = !sc.l("src_faults").is_empty()
            || !sc.l("sink_wfaults").is_empty()
            || !sc.l("sink_ffaults").is_empty();
        let (v, _) = self.one(sc, ctx, if faulty { Some((9, 0)) } else { None });
        v.into_iter().collect()
    }
}
