//! C02 — LZMA2 decoding is exact for every well-formed chunk sequence, and
//! C03 — XZ container decoding is exact for every well-formed supported file.
//! Both are pure: this is the simulator's fault-free control arm.

use super::common::*;
use crate::drive::*;
use crate::env::*;
use crate::gen;
use crate::prng::Tape;
use crate::refmodel::container::*;
use crate::runner::{Ctx, SimpleProp, Tier};
use crate::scenario::{Scenario, Violation};
use std::rc::Rc;

fn gen02(t: &mut Tape, tier: Tier) -> Scenario {
    let mut sc = Scenario::new("c02");
    let big = t.below(if tier == Tier::Thorough { 40 } else { 400 }) == 0;
    let b = gen_lzma2(t, if big { 2_400_000 } else { 4000 }, true);
    let ep = [EP_LZMA2, EP_RAW_LZMA2, EP_XZ][t.below(3) as usize];
    sc.set_i("ep", ep);
    let mut flags = 0u64;
    let mut prev = "";
    for c in b.note.split_whitespace() {
        flags |= match c {
            "U1" => 1,
            "U2" => 2,
            "L0" => 4,
            "L1" => 8,
            "L2" => 16,
            "L3" => 32,
            _ => 0,
        };
        if prev.starts_with('U') && c.starts_with('L') {
            flags |= 64;
        }
        if prev.starts_with('L') && c.starts_with('U') {
            flags |= 128;
        }
        prev = c;
    }
    if b.ps.len_273_far > 0 {
        flags |= 65536;
    }
    if b.ps.cross_chunk_copies > 0 {
        flags |= 256;
    }
    for c in &b.chunks {
        if c.unpacked_len == 1 {
            flags |= 512;
        }
        if c.ctrl < 0x80 && c.unpacked_len == 0x10000 {
            flags |= 1024;
        }
        if c.ctrl >= 0x80 && c.unpacked_len > 0x10000 {
            flags |= 2048;
        }
        if c.ctrl >= 0x80 && c.unpacked_len > 1_000_000 {
            flags |= 4096;
        }
        if c.ctrl >= 0x80 && c.payload_len > 60_000 {
            flags |= 8192;
        }
        if c.ctrl >= 0x80 && c.payload_len == 5 {
            flags |= 16384;
        }
        if c.ctrl >= 0x80 && c.payload_len == 65536 {
            flags |= 32768;
        }
    }
    sc.set_i("flags", flags);
    sc.set_i("nchunks", b.chunks.len() as u64);
    sc.note = format!("chunks: {}; out={} bytes; cross-chunk copies={}", b.note, b.expect.len(), b.ps.cross_chunk_copies);
    if ep == EP_XZ {
        let check_id = [0u8, 1, 4][t.below(3) as usize];
        let plan = XzPlan {
            check_id,
            blocks: vec![BlockPlan {
                payload: b.bytes,
                content: b.expect.clone(),
                ..Default::default()
            }],
            ..Default::default()
        };
        sc.set_b("input", build_xz(&plan).bytes);
    } else {
        sc.set_b("input", b.bytes);
    }
    sc.set_b("expect", b.expect);
    sc.set_l("src_script", gen::draw_script(t));
    sc.set_l("sink_script", gen::draw_script(t));
    if ep == EP_RAW_LZMA2 && t.below(3) == 0 {
        // the decoder object was used before: a call that failed half-way, no reset()
        sc.set_i("raw_pre", t.below(6));
        sc.note.push_str("; decoder object reused after a failed call without reset()");
    }
    sc
}

fn run_exact(sc: &Scenario, ctx: &mut Ctx, class_reject: &str) -> Vec<Violation> {
    let ep = sc.i("ep");
    let (mut sink, st) = SimSink::new(
        Some(Rc::new(sc.b("expect").to_vec())),
        sc.l("sink_script"),
        Faults::none(),
        Faults::none(),
    );
    let (v, ro) = run_with_reader(
        ep,
        sc.b("input"),
        RK_SIM,
        sc.l("src_script"),
        Faults::none(),
        0,
        &mut sink,
        &OptSpec::default(),
        &RawSpec {
            pre: sc.opt_i("raw_pre"),
            ..Default::default()
        },
        0,
        0,
    );
    if sc.opt_i("raw_pre").is_some() {
        ctx.stats.hit("arm.raw_decoder_object_reused_after_a_failed_call_without_reset");
    }
    let s = st.borrow();
    ctx.stats.eval(sc.hash() ^ ro.log, !sc.b("expect").is_empty(), ro.calls + s.writes + s.flushes);
    if let Verdict::Panic(p) = &v {
        return vec![Violation::new("panic", &panic_locus(p), p.clone(), sc)];
    }
    if let Some(off) = s.first_bad {
        return vec![Violation::new(
            "wrong_output",
            ep_name(ep),
            format!("output byte {} differs from the bytes the format defines [{}]", off, sc.note),
            sc,
        )];
    }
    if !v.is_ok() {
        return vec![Violation::new(class_reject, ep_name(ep), format!("{} [{}]", v.short(), sc.note), sc)];
    }
    if s.accepted.len() != sc.b("expect").len() {
        return vec![Violation::new(
            "wrong_output",
            ep_name(ep),
            format!("delivered {} bytes, the format defines {} [{}]", s.accepted.len(), sc.b("expect").len(), sc.note),
            sc,
        )];
    }
    Vec::new()
}

fn exec02(sc: &Scenario, ctx: &mut Ctx) -> Vec<Violation> {
    let f = sc.i("flags");
    if sc.i("nchunks") >= 256 {
        ctx.stats.hit("probe.256_or_more_chunks");
    }
    ctx.stats.max("max_chunks_in_one_stream", sc.i("nchunks"));
    let names: [&'static str; 17] = [
        "probe.uncompressed_chunk_with_dictionary_reset",
        "probe.uncompressed_chunk_without_reset",
        "probe.lzma_chunk_no_reset",
        "probe.lzma_chunk_state_reset",
        "probe.lzma_chunk_state_and_props_reset",
        "probe.lzma_chunk_full_reset",
        "probe.lzma_chunk_after_uncompressed_chunk",
        "probe.uncompressed_chunk_after_lzma_chunk",
        "probe.copy_reaches_into_earlier_chunk",
        "probe.one_byte_chunk",
        "probe.uncompressed_chunk_of_64KiB",
        "probe.lzma_chunk_above_64KiB_unpacked",
        "probe.lzma_chunk_above_1MB_unpacked",
        "probe.lzma_chunk_above_60000_packed",
        "probe.lzma_chunk_with_5_byte_payload",
        "probe.lzma_chunk_with_65536_byte_payload_the_field_maximum",
        "probe.longest_match_273_from_a_non_overlapping_source",
    ];
    for (i, n) in names.iter().enumerate() {
        if f & (1 << i) != 0 {
            ctx.stats.hit(n);
        }
    }
    match sc.i("ep") {
        EP_XZ => ctx.stats.hit("arm.inside_xz"),
        EP_RAW_LZMA2 => ctx.stats.hit("arm.raw_lzma2_decoder"),
        _ => ctx.stats.hit("arm.lzma2_decompress"),
    }
    run_exact(sc, ctx, "rejects_valid_stream")
}

pub static C02: SimpleProp = SimpleProp {
    id: "C02",
    level: "exploration",
    rule: "one evaluation = one decode of a reference-built LZMA2 stream (0-9 chunks, now and then 100-300 tiny ones: uncompressed with/without dictionary reset, LZMA with reset class none/state/state+props/all, property changes with lc+lp<=4, matches reaching into earlier chunks, 1-byte chunks, 64 KiB uncompressed, >1 MB unpacked; only sequences xz and the LZMA SDK accept) through lzma2_decompress, raw::Lzma2Decoder (a third of them on a decoder object whose previous call failed half-way - truncated input, reserved control byte, failing sink - with no reset() in between) or wrapped in .xz, with benign short reads/writes; output compared online with the LZ model; non-trivial = non-empty output; distinct by (scenario, event log) hash",
    runs_quick: 150_000,
    runs_thorough: 12_000_000,
    both_profiles: false,
    assumptions: &[
        "pure property: no fault or schedule decides it; control arm, sampling only",
        "the reference LZMA2 writer is validated against liblzma (wrapped in .xz) before every run",
    ],
    gen: gen02,
    exec: exec02,
    enumerate: None,
};

fn gen03(t: &mut Tape, tier: Tier) -> Scenario {
    let mut sc = Scenario::new("c03");
    let big = t.below(if tier == Tier::Thorough { 60 } else { 600 }) == 0;
    let plan = gen_xz_plan(t, if big { 300_000 } else { 700 });
    let built = build_xz(&plan);
    sc.set_i("ep", EP_XZ);
    let mut flags = 0u64;
    flags |= match plan.blocks.len() {
        0 => 1,
        1 => 2,
        _ => 4,
    };
    flags |= match plan.check_id {
        0 => 8,
        1 => 16,
        _ => 32,
    };
    for b in &plan.blocks {
        if b.has_csize {
            flags |= 64;
        }
        if b.has_usize {
            flags |= 128;
        }
        if b.extra_pad4 > 0 {
            flags |= 256;
        }
        if b.extra_pad4 > 100 {
            flags |= 512;
        }
        flags |= 1024 << ((12 + b.payload.len()) % 4); // block padding 0..3
        if b.payload.len() >= 128 {
            flags |= 1 << 14; // 2-byte VLI
        }
        if b.payload.len() >= 16384 {
            flags |= 1 << 15; // 3-byte VLI
        }
        if b.content.len() >= (1 << 21) {
            flags |= 1 << 16; // 4-byte VLI (uncompressed size)
        }
    }
    sc.set_i("flags", flags);
    sc.set_i("nblocks", plan.blocks.len() as u64);
    sc.note = format!(
        "blocks={} check={} sizes: {:?}",
        plan.blocks.len(),
        plan.check_id,
        plan.blocks.iter().map(|b| (b.payload.len(), b.content.len(), b.has_csize, b.has_usize, b.extra_pad4)).collect::<Vec<_>>()
    );
    sc.set_b("input", built.bytes);
    sc.set_b("expect", built.content);
    sc.set_l("src_script", gen::draw_script(t));
    sc.set_l("sink_script", gen::draw_script(t));
    sc
}

fn exec03(sc: &Scenario, ctx: &mut Ctx) -> Vec<Violation> {
    let f = sc.i("flags");
    if sc.i("nblocks") >= 16_384 {
        ctx.stats.hit("probe.16384_or_more_blocks_index_count_needs_three_bytes");
    }
    if sc.i("nblocks") >= 128 {
        ctx.stats.hit("probe.128_or_more_blocks_index_count_needs_two_bytes");
    }
    ctx.stats.max("max_blocks_in_one_file", sc.i("nblocks"));
    let names: [&'static str; 17] = [
        "probe.zero_blocks",
        "probe.one_block",
        "probe.several_blocks",
        "probe.check_none",
        "probe.check_crc32",
        "probe.check_crc64",
        "probe.compressed_size_field_present",
        "probe.uncompressed_size_field_present",
        "probe.extra_header_padding",
        "probe.header_of_1024_bytes",
        "probe.block_padding_0",
        "probe.block_padding_1",
        "probe.block_padding_2",
        "probe.block_padding_3",
        "probe.vli_2_bytes",
        "probe.vli_3_bytes",
        "probe.vli_4_bytes_block_of_2MiB_or_more",
    ];
    for (i, n) in names.iter().enumerate() {
        if f & (1 << i) != 0 {
            ctx.stats.hit(n);
        }
    }
    run_exact(sc, ctx, "rejects_valid_file")
}

pub static C03: SimpleProp = SimpleProp {
    id: "C03",
    level: "exploration",
    rule: "one evaluation = one xz_decompress of a reference-built single-stream file: 0-6 blocks (now and then 127-200 tiny ones, rarely 16383-16385, so that the index record count needs two / three bytes; in the big plans now and then a block of 2-3 MiB whose sizes need four-byte integers), check None/CRC32/CRC64, optional size fields present/absent, block header padded up to the 1024-byte maximum, LZMA2 payloads of every shape (so block padding 0-3 and VLIs of 1-4 bytes occur), arbitrary LZMA2 dictionary-size property; benign short reads/writes; output compared online with the concatenated block models; non-trivial = non-empty output; distinct by (scenario, event log) hash",
    runs_quick: 150_000,
    runs_thorough: 12_000_000,
    both_profiles: false,
    assumptions: &[
        "pure property: control arm, sampling only",
        "VLIs of 5-9 bytes would need blocks >= 256 MiB and are not exercised in accepted files (stated bound)",
        "the reference XZ writer is validated against liblzma before every run",
    ],
    gen: gen03,
    exec: exec03,
    enumerate: None,
};
