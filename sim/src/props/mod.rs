//! Property registry.
pub mod common;
pub mod c01;
pub mod c02;
pub mod c04;
pub mod c05;
pub mod c06;
pub mod c07;
pub mod c08;
pub mod c09;
pub mod c10;
pub mod c11;
pub mod c12;
pub mod c13;
pub mod c14;
pub mod c15;
pub mod c16;
pub mod c17;
pub mod c18;

use crate::runner::Property;

pub fn all() -> Vec<&'static dyn Property> {
    vec![&c01::C01, &c02::C02, &c02::C03, &c04::C04, &c05::C05, &c06::C06, &c07::C07, &c08::C08, &c09::C09, &c10::C10, &c11::C11, &c12::C12, &c13::C13, &c14::C14, &c15::C15, &c16::C16, &c17::C17, &c18::C18]
}
