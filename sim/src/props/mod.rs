//! Property registry.
pub mod common;
pub mod c12;

use crate::runner::Property;

pub fn all() -> Vec<&'static dyn Property> {
    vec![&c12::C12]
}
