//! C05 — the streaming decoder equals the one-shot decoder under every
//! chunking (history check: verdict and bytes of Stream == one-shot).

use super::c13::mutate;
use super::common::*;
use crate::drive::*;
use crate::env::*;
use crate::gen;
use crate::prng::Tape;
use crate::runner::{Ctx, SimpleProp, Tier};
use crate::scenario::{Scenario, Violation};

/// Offsets (in the file) of interesting cut points derived from the reference
/// trace: inside the header, inside the preamble, around the longest symbol.
pub fn adversarial_cuts(t: &mut Tape, hl: usize, b: &LzmaBuilt, total: usize) -> (Vec<usize>, (usize, usize)) {
    let mut cuts = Vec::new();
    let mut flags = 0u64;
    // longest symbol
    let mut prev = 5u32;
    let mut best = (0u32, 0u32, 0u32);
    for r in &b.trace {
        let n = r.consumed - prev;
        if n > best.0 {
            best = (n, prev, r.consumed);
        }
        prev = r.consumed;
    }
    for _ in 0..t.range(1, 4) {
        match t.below(6) {
            0 => {
                cuts.push(t.range(1, hl as u64 - 1) as usize);
                flags |= 1;
            }
            1 => {
                cuts.push(hl + t.range(1, 4) as usize);
                flags |= 2;
            }
            2 if best.0 >= 2 => {
                // in the middle of the longest symbol
                cuts.push(hl + best.1 as usize + t.range(1, best.0 as u64 - 1) as usize);
                flags |= 4;
                if best.0 >= 9 {
                    flags |= 8;
                }
            }
            3 if best.0 >= 1 => {
                cuts.push(hl + best.1 as usize + 1);
                cuts.push(hl + best.2 as usize - 1);
                flags |= 4;
            }
            4 => {
                cuts.push(hl + best.2 as usize + 1);
                cuts.push((hl + best.1 as usize).saturating_sub(1));
            }
            _ => {
                if total > 1 {
                    cuts.push(t.range(1, total as u64 - 1) as usize);
                }
            }
        }
    }
    cuts.retain(|c| *c > 0 && *c < total);
    cuts.sort();
    cuts.dedup();
    let _ = flags;
    (cuts, (hl + best.1 as usize, hl + best.2 as usize))
}

/// Probe flags from the boundaries a history really has.
pub fn boundary_flags(ops: &[u64], hl: usize, longest: (usize, usize)) -> u64 {
    let mut pos = 0usize;
    let mut f = 0u64;
    for p in ops.chunks(2) {
        if p[0] == OP_WRITE_N || p[0] == OP_WRITE {
            pos += p[1] as usize;
            if pos > 0 && pos < hl {
                f |= 1;
            }
            if pos > hl && pos < hl + 5 {
                f |= 2;
            }
            if pos > longest.0 && pos < longest.1 {
                f |= 4;
                if longest.1 - longest.0 >= 9 {
                    f |= 8;
                }
            }
        }
    }
    f
}

/// History over an input of `n` bytes.
pub fn draw_history(t: &mut Tape, n: usize, cuts: &[usize], with_noise: bool) -> Vec<u64> {
    let mut ops: Vec<u64> = Vec::new();
    let style = t.below(7);
    let noise = |t: &mut Tape, ops: &mut Vec<u64>| {
        if with_noise {
            match t.below(12) {
                0 => ops.extend_from_slice(&[OP_WRITE, 0]),
                1 => ops.extend_from_slice(&[OP_FLUSH, 0]),
                2 => ops.extend_from_slice(&[OP_PEEK, 0]),
                3 => ops.extend_from_slice(&[OP_PEEK_MUT, 0]),
                4 => ops.extend_from_slice(&[OP_DEBUG, 0]),
                _ => {}
            }
        }
    };
    match style {
        0 => {} // everything in one write_all
        1 => {
            // all single bytes (bounded; the rest goes in one piece)
            for _ in 0..n.min(600) {
                ops.extend_from_slice(&[OP_WRITE_N, 1]);
            }
        }
        2 => {
            let k = t.range(2, 40);
            let mut left = n as u64;
            while left > 0 && ops.len() < 1200 {
                ops.extend_from_slice(&[OP_WRITE_N, k]);
                noise(t, &mut ops);
                left = left.saturating_sub(k);
            }
        }
        3 => {
            let mut left = n as u64;
            while left > 0 && ops.len() < 400 {
                let k = t.range(1, 30);
                let op = if t.below(3) == 0 { OP_WRITE } else { OP_WRITE_N };
                ops.extend_from_slice(&[op, k]);
                noise(t, &mut ops);
                left = left.saturating_sub(k);
            }
        }
        4 | 5 => {
            // adversarial cuts
            let mut prev = 0usize;
            for c in cuts {
                ops.extend_from_slice(&[OP_WRITE_N, (*c - prev) as u64]);
                noise(t, &mut ops);
                prev = *c;
            }
        }
        _ => {
            // sizes around the 20-byte look-ahead
            let mut left = n as u64;
            while left > 0 && ops.len() < 600 {
                let k = [18u64, 19, 20, 21, 1, 5, 13, 12][t.below(8) as usize];
                ops.extend_from_slice(&[OP_WRITE_N, k]);
                left = left.saturating_sub(k);
            }
        }
    }
    ops.extend_from_slice(&[OP_WRITE_ALL, 0, OP_FINISH, 0]);
    ops
}

fn gen(t: &mut Tape, tier: Tier) -> Scenario {
    let mut sc = Scenario::new("c05");
    let mut opts = OptSpec::default();
    let kind = t.below(10);
    let long = kind == 0 || (kind == 1 && tier == Tier::Thorough);
    let (mut input, cuts, mut flags, note);
    let mut longest = (0usize, 0usize);
    let mut hl_used = 13usize;
    if kind == 9 && t.below(2) == 0 {
        // a well-formed header followed by a constant-byte payload: with zeros the
        // code register stays 0 at every symbol boundary (the state in which a
        // marker-less stream may legitimately end), whatever the cut position
        opts.mode = t.below(3);
        let props = gen::draw_props(t, false);
        let (dict_hdr, _) = gen::draw_dict_header(t);
        let size_field = match t.below(4) {
            0 => t.below(300),
            _ => u64::MAX,
        };
        input = crate::refmodel::container::lzma_header(props, dict_hdr, if opts.mode == 2 { None } else { Some(size_field) });
        if opts.mode != 0 && t.below(2) == 0 {
            opts.provided = Some(t.below(300));
        }
        let n = t.range(0, 300) as usize;
        let b = [0u8, 0, 0, 0xFF, 0x55][t.below(5) as usize];
        input.extend(std::iter::repeat(b).take(n));
        cuts = Vec::new();
        flags = 0;
        note = format!("header lc={} lp={} pb={} + {} bytes of 0x{:02x}", props.lc, props.lp, props.pb, n, b);
    } else if kind == 9 {
        // arbitrary bytes
        let n = t.range(1, 80) as usize;
        input = gen::draw_bytes(t, n);
        opts.mode = t.below(3);
        if t.below(2) == 1 {
            opts.provided = Some(t.below(100));
        }
        cuts = Vec::new();
        flags = 0;
        note = "random bytes".to_string();
    } else {
        let b = if long {
            gen_long(t, 0)
        } else {
            gen_lzma(t, 0, 2500)
        };
        opts.mode = t.below(3);
        let true_size = b.expect.len() as u64;
        // supplied size: mostly consistent, sometimes off
        let supplied = |t: &mut Tape| -> Option<u64> {
            match t.below(8) {
                0 => Some(true_size.saturating_sub(1)),
                1 => Some(true_size + 1),
                2 => Some(0),
                3 => None,
                _ => {
                    if b.marker {
                        None
                    } else {
                        Some(true_size)
                    }
                }
            }
        };
        input = match opts.mode {
            0 => {
                let f = match t.below(8) {
                    0 => true_size.saturating_sub(1),
                    1 => true_size + 1,
                    2 => u64::MAX,
                    _ => {
                        if b.marker {
                            u64::MAX
                        } else {
                            true_size
                        }
                    }
                };
                b.file(Some(f))
            }
            1 => {
                opts.provided = supplied(t);
                b.file(Some(t.u64()))
            }
            _ => {
                opts.provided = supplied(t);
                b.file(None)
            }
        };
        let hl = opts.header_len();
        let total = input.len();
        let (c, l) = adversarial_cuts(t, hl, &b, total);
        cuts = c;
        longest = l;
        hl_used = hl;
        flags = if b.max_symbol_bytes() >= 9 { 16 } else { 0 };
        let m = mutate(t, &mut input);
        note = format!(
            "lc={} lp={} pb={} dict_hdr={} marker={} out={} longest symbol {} bytes; mutation: {}",
            b.props.lc,
            b.props.lp,
            b.props.pb,
            b.dict_hdr,
            b.marker,
            b.expect.len(),
            b.max_symbol_bytes(),
            m
        );
    }
    if t.below(6) == 0 {
        opts.memlimit = Some(t.range(0, 5000) as usize);
    }
    opts.wrapper = t.below(2) == 1;
    opts.store(&mut sc);
    let cuts: Vec<usize> = cuts.into_iter().filter(|c| *c < input.len()).collect();
    let ops = draw_history(t, input.len(), &cuts, true);
    flags |= boundary_flags(&ops, hl_used, longest);
    if longest.1 > longest.0 + 8 && longest.1 <= input.len() && t.below(3) == 0 {
        // scan every cut position inside the longest symbol
        sc.set_i("scan_from", longest.0 as u64);
        sc.set_i("scan_to", longest.1 as u64);
    }
    sc.note = format!("{}; history: {}", note, &ops_note(&ops)[..ops_note(&ops).len().min(200)]);
    sc.set_b("input", input);
    sc.set_l("ops", ops);
    sc.set_i("flags", flags);
    sc
}

fn one_history(sc: &Scenario, ops: &[u64], oneshot: &(Verdict, Vec<u8>)) -> (Option<Violation>, StreamOutcome, usize) {
    let opts = OptSpec::load(sc);
    let input = sc.b("input");
    let (sink, st) = SimSink::benign(None);
    let o = run_stream(input, ops, &opts, sink, &st, false);
    let v = stream_verdict(&o);
    let got = st.borrow().accepted.clone();
    let mk = |class: &str, detail: String| {
        let mut s2 = sc.clone();
        s2.set_l("ops", ops.to_vec());
        Some(Violation::new(class, "Stream vs lzma_decompress_with_options", detail, &s2))
    };
    if let Verdict::Panic(p) = &v {
        let mut s2 = sc.clone();
        s2.set_l("ops", ops.to_vec());
        return (Some(Violation::new("panic", &panic_locus(p), p.clone(), &s2)), o, got.len());
    }
    if input.is_empty() {
        // the stated exception: zero total input finishes successfully, empty
        if !v.is_ok() || !got.is_empty() {
            return (mk("empty_input_exception", format!("zero input: stream gave {} with {} bytes", v.short(), got.len())), o, 0);
        }
        return (None, o, 0);
    }
    if v.kind() != oneshot.0.kind() {
        return (
            mk(
                "verdict_mismatch",
                format!(
                    "one-shot {} ({} bytes); stream {} ({} bytes)",
                    oneshot.0.short(),
                    oneshot.1.len(),
                    v.short(),
                    got.len()
                ),
            ),
            o,
            got.len(),
        );
    }
    if v.is_ok() && got != oneshot.1 {
        let at = got.iter().zip(oneshot.1.iter()).position(|(a, b)| a != b).unwrap_or(got.len().min(oneshot.1.len()));
        return (
            mk(
                "output_mismatch",
                format!("both succeed; outputs differ at byte {} ({} vs {} bytes)", at, got.len(), oneshot.1.len()),
            ),
            o,
            got.len(),
        );
    }
    let n = got.len();
    (None, o, n)
}

fn exec(sc: &Scenario, ctx: &mut Ctx) -> Vec<Violation> {
    let opts = OptSpec::load(sc);
    let input = sc.b("input");
    let (v1, out1, _) = simple_decode(EP_LZMA, input, &opts, &RawSpec::default());
    if let Verdict::Panic(p) = &v1 {
        return vec![Violation::new("panic", &panic_locus(p), p.clone(), sc)];
    }
    let oneshot = (v1, out1);
    match oneshot.0 {
        Verdict::Ok => ctx.stats.hit("verdict.oneshot_ok"),
        _ => ctx.stats.hit("verdict.oneshot_err"),
    }
    let f = sc.i("flags");
    if f & 1 != 0 {
        ctx.stats.hit("probe.cut_inside_header");
    }
    if f & 2 != 0 {
        ctx.stats.hit("probe.cut_inside_rangecoder_preamble");
    }
    if f & 4 != 0 {
        ctx.stats.hit("probe.cut_inside_longest_symbol");
    }
    if f & 8 != 0 {
        ctx.stats.hit("probe.cut_inside_symbol_of_9_or_more_bytes");
    }
    if f & 16 != 0 {
        ctx.stats.hit("probe.stream_has_symbol_of_9_or_more_bytes");
    }
    let ops = sc.l("ops");
    let (v, o, _) = one_history(sc, ops, &oneshot);
    let writes = o.events.iter().filter(|e| e.op != OP_FLUSH && e.op != OP_PEEK && e.op != OP_PEEK_MUT && e.op != OP_DEBUG && e.op != OP_FINISH).count();
    if o.events.iter().any(|e| e.op == OP_WRITE && e.offered == 0) {
        ctx.stats.hit("probe.empty_write_in_history");
    }
    if o.stalled {
        ctx.stats.hit("probe.write_returned_zero_for_nonempty_input");
    }
    ctx.stats.max("max_write_calls_in_one_history", writes as u64);
    let mut h = crate::prng::Hash64::new();
    h.u(sc.hash());
    ctx.stats.eval(h.get(), writes >= 2, o.events.len() as u64 + 1);
    if let Some(v) = v {
        return vec![v];
    }
    if sc.has_i("scan_to") {
        ctx.stats.hit("arm.every_cut_inside_the_longest_symbol_scanned");
        for c in (sc.i("scan_from") + 1)..sc.i("scan_to") {
            let ops1 = [OP_WRITE_N, c, OP_WRITE_ALL, 0, OP_FINISH, 0];
            let (v, o, _) = one_history(sc, &ops1, &oneshot);
            ctx.stats.eval(sc.hash() ^ c << 24, true, o.events.len() as u64);
            if c - sc.i("scan_from") >= 16 {
                ctx.stats.hit("probe.cut_16_or_more_bytes_into_a_symbol");
            }
            if let Some(v) = v {
                return vec![v];
            }
        }
    }
    // enumeration of every 1-cut and (bounded) 2-cut composition for short inputs
    if sc.i("enumerate_cuts") == 1 {
        let n = input.len();
        ctx.stats.hit("arm.inputs_with_all_1cut_and_2cut_compositions");
        for a in 1..n {
            let ops1 = [OP_WRITE_N, a as u64, OP_WRITE_ALL, 0, OP_FINISH, 0];
            let (v, o, _) = one_history(sc, &ops1, &oneshot);
            ctx.stats.eval(sc.hash() ^ (a as u64) << 20, true, o.events.len() as u64);
            if let Some(v) = v {
                return vec![v];
            }
            for b in (a + 1)..n {
                let ops2 = [OP_WRITE_N, a as u64, OP_WRITE_N, (b - a) as u64, OP_WRITE_ALL, 0, OP_FINISH, 0];
                let (v, o, _) = one_history(sc, &ops2, &oneshot);
                ctx.stats.eval(sc.hash() ^ ((a as u64) << 20) ^ ((b as u64) << 40), true, o.events.len() as u64);
                if let Some(v) = v {
                    return vec![v];
                }
            }
        }
    }
    if sc.i("enumerate_cuts") == 2 {
        // every 3-cut composition of a very short input
        let n = input.len();
        ctx.stats.hit("arm.inputs_with_all_3cut_compositions");
        for a in 1..n {
            for b in (a + 1)..n {
                for c in (b + 1)..n {
                    let ops3 = [
                        OP_WRITE_N, a as u64, OP_WRITE_N, (b - a) as u64, OP_WRITE_N, (c - b) as u64,
                        OP_WRITE_ALL, 0, OP_FINISH, 0,
                    ];
                    let (v, o, _) = one_history(sc, &ops3, &oneshot);
                    ctx.stats.eval(
                        sc.hash() ^ ((a as u64) << 20) ^ ((b as u64) << 40) ^ ((c as u64) << 52),
                        true,
                        o.events.len() as u64,
                    );
                    if let Some(v) = v {
                        return vec![v];
                    }
                }
            }
        }
    }
    Vec::new()
}

fn gen_with_enum(t: &mut Tape, tier: Tier) -> Scenario {
    let mut sc = gen(t, tier);
    let every = if tier == Tier::Thorough { 40 } else { 400 };
    if sc.b("input").len() <= 160 && !sc.b("input").is_empty() && t.below(every) == 0 {
        sc.set_i("enumerate_cuts", 1);
    } else if tier == Tier::Thorough && sc.b("input").len() <= 44 && sc.b("input").len() >= 4 && t.below(60) == 0 {
        sc.set_i("enumerate_cuts", 2);
    }
    sc
}

pub static C05: SimpleProp = SimpleProp {
    id: "C05",
    level: "exploration",
    rule: "one evaluation = one history: a byte string (valid stream of any shape incl. adversarially trained 9-12-byte symbols; truncated, bit-flipped, spliced, extended; random bytes; a valid header followed by a constant-byte payload) x decode option (3 modes, supplied size true/±1/0/none, memlimit) x a composition into write calls (single bytes, fixed k, random, sizes around 20, cuts placed inside the header / the 5-byte preamble / the longest symbol from the reference trace; empty writes, flush and get_output interleaved) then finish; the Stream verdict and bytes must equal lzma_decompress_with_options on the concatenation. For a sample of inputs <= 160 bytes every 1-cut and every 2-cut composition is enumerated (thorough: also every 3-cut composition of inputs <= 44 bytes); for a third of the adversarial streams every cut inside the longest symbol is scanned. Non-trivial = history has >= 2 write calls; distinct by scenario hash",
    runs_quick: 120_000,
    runs_thorough: 8_000_000,
    both_profiles: false,
    assumptions: &[
        "the oracle is the one-shot decoder itself (its own correctness is C01/C08)",
        "the caller behaves like write_all: it advances by the count each write returns and stops feeding when a non-empty write returns Ok(0)",
        "allow_incomplete=false (that option exists to make the two differ)",
    ],
    gen: gen_with_enum,
    exec,
    enumerate: None,
};
