//! C17 — malformed LZMA2 framing is rejected. Per valid chunk sequence every
//! framing field is set to every boundary-violating value at every chunk.

use super::common::*;
use crate::drive::*;
use crate::prng::Tape;
use crate::refmodel::container::*;
use crate::runner::{Ctx, Property, Tier};
use crate::scenario::{Scenario, Violation};

pub struct C17;

/// (mutated bytes, fault kind, note)
fn variants(t: &mut Tape, b: &Lzma2Built, full: bool) -> Vec<(Vec<u8>, &'static str, String)> {
    let mut v = Vec::new();
    let base = &b.bytes;
    let sample = |t: &mut Tape, all: Vec<u32>, n: usize| -> Vec<u32> {
        if full || all.len() <= n {
            all
        } else {
            (0..n).map(|_| all[t.below(all.len() as u64) as usize]).collect()
        }
    };
    // streams of very many chunks: first, last and four others stand for the rest
    let nc = b.chunks.len();
    let pick: Vec<usize> = if nc > 12 {
        let mut x = vec![0, nc - 1];
        for _ in 0..4 {
            x.push(1 + t.below(nc as u64 - 2) as usize);
        }
        x.sort();
        x.dedup();
        x
    } else {
        (0..nc).collect()
    };
    for (ci, c) in b.chunks.iter().enumerate() {
        if !pick.contains(&ci) {
            continue;
        }
        // control byte := every value 0x03..0x7F
        for val in sample(t, (0x03u32..=0x7F).collect(), 6) {
            let mut m = base.clone();
            m[c.off] = val as u8;
            v.push((m, "bad_control", format!("chunk {}: control byte 0x{:02x} -> 0x{:02x}", ci, c.ctrl, val)));
        }
        if c.ctrl >= 0x83 {
            // bit 7 cleared: a reserved value whose remaining bits (reset class,
            // size bits) and whose following fields are exactly those of a valid chunk
            let mut m = base.clone();
            m[c.off] = c.ctrl & 0x7F;
            v.push((m, "bad_control", format!("chunk {}: control byte 0x{:02x} -> 0x{:02x} (bit 7 cleared)", ci, c.ctrl, c.ctrl & 0x7F)));
        }
        if c.ctrl >= 0xC0 {
            // property byte: every value >= 225 and every value with lc+lp > 4
            let mut vals: Vec<u32> = (225u32..=255).collect();
            for p in 0u32..225 {
                if (p % 9) + ((p / 9) % 5) > 4 {
                    vals.push(p);
                }
            }
            for val in sample(t, vals, 6) {
                let mut m = base.clone();
                m[c.off + 5] = val as u8;
                v.push((m, "bad_props", format!("chunk {}: property byte -> {}", ci, val)));
            }
        }
        if c.ctrl >= 0x80 {
            let p = c.payload_len as i64;
            let u = c.unpacked_len as i64;
            // declared compressed size lowered
            let mut lows = vec![p - 1, p - 2, p - 3, p / 2, 5, 1];
            lows.retain(|x| *x >= 1 && *x < p);
            lows.sort();
            lows.dedup();
            for np in lows {
                let mut m = base.clone();
                let f = (np - 1) as u16;
                m[c.off + 3..c.off + 5].copy_from_slice(&f.to_be_bytes());
                v.push((m, "csize_lowered", format!("chunk {}: compressed size {} -> {}", ci, p, np)));
            }
            // declared uncompressed size +- 1, +- many
            // bytes produced since the last dictionary reset before this chunk: a
            // decoder that mixes up "chunk size" and "window position" is off by this
            let mut before = 0i64;
            for prev in b.chunks[..ci].iter() {
                if prev.ctrl == 1 || prev.ctrl >= 0xE0 {
                    before = 0;
                }
                before += prev.unpacked_len as i64;
            }
            let mut us = vec![u - 1, u + 1, u - 7, u + 300, u / 2, u + 65536, u - 65536, u + 131072, u ^ 0x10000, 1, u + 2, u - before, u + before];
            us.retain(|x| *x >= 1 && *x != u && *x <= (1 << 21));
            us.sort();
            us.dedup();
            for nu in us {
                let mut m = base.clone();
                let f = (nu - 1) as u32;
                m[c.off] = (c.ctrl & 0xE0) | ((f >> 16) as u8 & 0x1F);
                m[c.off + 1..c.off + 3].copy_from_slice(&((f & 0xFFFF) as u16).to_be_bytes());
                let kind = if nu < u { "usize_lowered" } else { "usize_raised" };
                v.push((m, kind, format!("chunk {}: uncompressed size {} -> {}", ci, u, nu)));
            }
        } else {
            // uncompressed chunk cut short: the input ends inside its data
            let mut cuts = vec![c.off + 1, c.off + 2, c.off + 3, c.off + 3 + c.payload_len / 2, c.off + 3 + c.payload_len - 1];
            cuts.retain(|x| *x < c.off + 3 + c.payload_len && *x > c.off);
            cuts.dedup();
            for cut in cuts {
                let m = base[..cut].to_vec();
                v.push((m, "uncompressed_truncated", format!("chunk {}: input ends {} bytes into an uncompressed chunk of {}", ci, cut - c.off, c.payload_len)));
            }
            // declared size raised beyond what is left
            let left = base.len() - (c.off + 3);
            if left < 0x10000 {
                let mut m = base.clone();
                let f = (left as u32).min(0xFFFF) as u16; // declares left+1 bytes
                m[c.off + 1..c.off + 3].copy_from_slice(&f.to_be_bytes());
                v.push((m, "uncompressed_truncated", format!("chunk {}: uncompressed chunk declares {} bytes, {} are left", ci, f as u32 + 1, left)));
            }
        }
        // input cut at this chunk boundary (no end byte)
        let m = base[..c.off].to_vec();
        v.push((m, "missing_end", format!("input ends before chunk {} (no end byte)", ci)));
    }
    // end byte missing
    let m = base[..base.len() - 1].to_vec();
    v.push((m, "missing_end", "final end byte dropped".to_string()));
    v
}

fn exec_one(sc: &Scenario, ctx: &mut Ctx) -> Vec<Violation> {
    ctx.begin(sc);
    let ep = sc.i("ep");
    let input = sc.b("input");
    if sc.note.starts_with("unmodified") {
        let mut out = Vec::new();
        let mut r: &[u8] = input;
        let v = call_decoder(EP_LZMA2, &mut r, &mut out, &OptSpec::default(), &RawSpec::default());
        if !v.is_ok() || out != sc.b("expect") {
            return vec![Violation::new(
                "rejects_valid_stream",
                "unmodified",
                format!("well-formed chunk sequence: {} with {} of {} bytes", v.short(), out.len(), sc.b("expect").len()),
                sc,
            )];
        }
        return Vec::new();
    }
    let mut out = Vec::new();
    let (v, _) = run_with_reader(
        ep,
        input,
        if sc.l("src_script").is_empty() { RK_SLICE } else { RK_SIM },
        sc.l("src_script"),
        crate::env::Faults::none(),
        0,
        &mut out,
        &OptSpec::default(),
        &RawSpec::default(),
        0,
        0,
    );
    let kind = sc.note.split(" | ").next().unwrap_or("?").to_string();
    if ep == EP_RAW_LZMA2 && sc.has_b("base") && !v.is_ok() {
        // the same malformed stream offered again to the same decoder object
        // (after a valid stream, with and without reset) must still be refused
        use lzma_rs::decompress::raw::Lzma2Decoder;
        let again = crate::env::guarded(|| {
            let mut d = Lzma2Decoder::new();
            let mut sink = Vec::new();
            let _ = d.decompress(&mut &sc.b("base")[..], &mut sink);
            let mut verdicts = Vec::new();
            for step in 0..3 {
                let mut o = Vec::new();
                let r = d.decompress(&mut &input[..], &mut o);
                verdicts.push((r.is_ok(), o.len()));
                if step == 0 {
                    d.reset();
                }
            }
            verdicts
        });
        ctx.stats.hit("probe.malformed_stream_offered_again_to_a_reused_decoder");
        match again {
            Err(p) => return vec![Violation::new("panic", &panic_locus(&p), p, sc)],
            Ok(vs) => {
                if let Some(i) = vs.iter().position(|x| x.0) {
                    return vec![Violation::new(
                        "accepts_malformed_framing",
                        &kind,
                        format!(
                            "a fresh raw::Lzma2Decoder refuses this stream, but the same decoder object accepted it on attempt #{} after having refused it ({} bytes delivered) [{}]",
                            i + 1, vs[i].1, sc.note
                        ),
                        sc,
                    )];
                }
            }
        }
    }
    // the lenient reference: it knows exactly the rules C17 lists
    let lz2: Vec<u8>;
    let data: &[u8] = if ep == EP_XZ {
        // the LZMA2 payload sits after the 12-byte stream header and 12-byte block header
        lz2 = input[24..].to_vec();
        &lz2
    } else {
        input
    };
    let reference = ref_lzma2_decode(data, false);
    ctx.stats.eval(sc.hash(), true, 1);
    if let Verdict::Panic(p) = &v {
        return vec![Violation::new("panic", &panic_locus(p), p.clone(), sc)];
    }
    let must_reject: Option<String> = match &reference {
        Err(L2Reject::BadControl(c)) => Some(format!("control byte 0x{:02x}", c)),
        Err(L2Reject::BadProps(p)) => Some(format!("property byte {}", p)),
        Err(L2Reject::NeedsMoreInput) => Some("a compressed chunk needs more input than its declared compressed size".into()),
        Err(L2Reject::ProducesMore) => Some("a compressed chunk produces more than its declared uncompressed size".into()),
        Err(L2Reject::UnusedCompressedBytes(n)) if kind == "usize_lowered" => Some(format!(
            "a compressed chunk reaches its (lowered) declared uncompressed size with {} compressed bytes unused, i.e. its payload produces more than declared",
            n
        )),
        Err(L2Reject::MarkerBeforeSize) => Some("a compressed chunk ends (end marker) before producing its declared uncompressed size".into()),
        Err(L2Reject::UncompressedTruncated) => Some("an uncompressed chunk is shorter than declared".into()),
        Err(L2Reject::MissingEnd) | Err(L2Reject::TruncatedHeader) => Some("the input ends before the end control byte".into()),
        _ => None,
    };
    match (&must_reject, &reference) {
        (Some(_), _) => ctx.stats.hit("probe.reference_says_must_reject"),
        (None, Ok(_)) => ctx.stats.hit("probe.mutated_stream_still_valid_not_demanded_to_fail"),
        (None, Err(_)) => ctx.stats.hit("probe.rejected_by_reference_for_a_reason_outside_C17"),
    }
    if v.is_ok() {
        if let Some(why) = must_reject {
            return vec![Violation::new(
                "accepts_malformed_framing",
                &kind,
                format!("{} accepted a stream in which {} [{}]; {} bytes delivered", ep_name(ep), why, sc.note, out.len()),
                sc,
            )];
        }
        if let Ok((ro, _)) = &reference {
            if ep != EP_XZ && *ro != out {
                return vec![Violation::new(
                    "wrong_output",
                    &kind,
                    format!("accepted, but {} bytes differ from the reference decoding ({} bytes) [{}]", out.len(), ro.len(), sc.note),
                    sc,
                )];
            }
        }
    }
    Vec::new()
}

fn oversize_payload(t: &mut Tape, ctx: &mut Ctx) -> Vec<Violation> {
    use crate::refmodel::codec::RefEnc;
    use crate::refmodel::lz::Sym;
    let props = crate::gen::draw_props(t, true);
    let mut enc = RefEnc::new(props, 1 << 22);
    let mut r = crate::prng::Xoshiro::new(t.u64());
    let want = 65_536 + t.range(1, 9000);
    // incompressible literals until the payload (bytes the decoder needs) reaches `want`
    while (enc.consumed() as u64) < want {
        let _ = enc.encode(Sym::Lit(r.next() as u8));
    }
    let unpacked = enc.model.out.len() as u64;
    let payload = enc.finish_segment();
    let real = payload.len() as u64;
    let mut out = Vec::new();
    ctx.stats.hit("arm.hand_framed_chunk_with_a_payload_above_64KiB");
    for declared in [real - 65_536, real - 65_536 + 1, real - 65_536 - 1] {
        if declared < 1 || declared > 65_536 {
            continue;
        }
        let mut bytes = Vec::new();
        let u = unpacked - 1;
        bytes.push(0xE0 | ((u >> 16) as u8 & 0x1F));
        bytes.extend_from_slice(&((u & 0xFFFF) as u16).to_be_bytes());
        bytes.extend_from_slice(&((declared - 1) as u16).to_be_bytes());
        bytes.push(props.byte());
        bytes.extend_from_slice(&payload);
        bytes.push(0);
        let mut sc = Scenario::new("c17");
        sc.set_i("ep", [EP_LZMA2, EP_RAW_LZMA2][t.below(2) as usize]);
        sc.set_b("input", bytes);
        sc.note = format!(
            "csize_lowered | one chunk of {} unpacked bytes whose payload is {} bytes, declared compressed size {} (= real - 65536{:+})",
            unpacked, real, declared, declared as i64 - (real as i64 - 65_536)
        );
        ctx.stats.hit("fault.fired.compressed_size_lowered");
        let rr = exec_one(&sc, ctx);
        if !rr.is_empty() {
            out = rr;
            break;
        }
    }
    out
}

impl Property for C17 {
    fn id(&self) -> &'static str {
        "C17"
    }
    fn level(&self) -> &'static str {
        "fault_enumeration"
    }
    fn rule(&self) -> &'static str {
        "per seeded valid LZMA2 chunk sequence, at every chunk: control byte := each value 0x03-0x7F, and the chunk's own control byte with bit 7 cleared; property byte := each value >= 225 and each value with lc+lp > 4; declared compressed size lowered (-1,-2,-3, half, 5, 1); declared uncompressed size ±1, ±many, ±65536 (also on base chunks of 65536*h+{-1,0,1} bytes, the boundaries of the size field); uncompressed chunk cut short at several offsets or declaring more than is left; input cut at every chunk boundary and before the end byte (thorough: every value; quick: 6 sampled values per field); plus chunks that end in an end-of-stream marker short of their declared size. One evaluation = one mutated stream through lzma2_decompress / raw::Lzma2Decoder / xz_decompress; a lenient reference decoder that knows exactly the listed rules decides must-reject; distinct by scenario hash; all non-trivial"
    }
    fn runs(&self, tier: Tier) -> u64 {
        match tier {
            Tier::Quick => 4_000,
            Tier::Thorough => 250_000,
        }
    }
    fn assumptions(&self) -> Vec<&'static str> {
        vec![
            "mutations after which the stream is still a valid encoding (reference accepts) are not demanded to fail; then the bytes must equal the reference decoding",
            "a declared compressed size that is too large is not in the property's list and is not asserted",
        ]
    }
    fn run(&self, t: &mut Tape, ctx: &mut Ctx) -> Vec<Violation> {
        // 1 run in 80: a hand-framed chunk whose payload is longer than any legal one
        // (64 KiB + d) and whose size field declares 65536 * k bytes less - what a
        // decoder sees if it compares sizes in 16 bits
        if t.below(80) == 0 {
            return oversize_payload(t, ctx);
        }
        // 1 run in 16: chunk sizes on the boundaries of the size field
        let boundary = t.below(16) == 0;
        let b = loop {
            if boundary {
                ctx.stats.hit("arm.chunk_sizes_on_the_16_bit_field_boundary");
                break gen_lzma2_size_boundary(t);
            }
            let b = gen_lzma2(t, 1500, true);
            if !b.chunks.is_empty() || t.used() > 100_000 {
                break b;
            }
            if t.used() == 0 {
                break b;
            }
        };
        if b.chunks.is_empty() {
            return Vec::new();
        }
        // the size-boundary bases decode 64-200 KB per case: sampled values there
        let full = ctx.tier == Tier::Thorough && !boundary;
        let ep = [EP_LZMA2, EP_LZMA2, EP_RAW_LZMA2, EP_XZ][t.below(4) as usize];
        // the unmodified sequence must be accepted (sanity of the generator and
        // of the framing code on a well-formed stream)
        {
            let mut out = Vec::new();
            let mut r: &[u8] = &b.bytes;
            let v = call_decoder(EP_LZMA2, &mut r, &mut out, &OptSpec::default(), &RawSpec::default());
            if !v.is_ok() || out != b.expect {
                let mut sc = Scenario::new("c17");
                sc.set_i("ep", EP_LZMA2);
                sc.set_b("input", b.bytes.clone());
                sc.set_b("expect", b.expect.clone());
                sc.note = format!("unmodified | valid chunk sequence | chunks: {}", b.note);
                return vec![Violation::new(
                    "rejects_valid_stream",
                    "unmodified",
                    format!("well-formed chunk sequence ({}): {} with {} of {} bytes", b.note, v.short(), out.len(), b.expect.len()),
                    &sc,
                )];
            }
        }
        let scripts: [Vec<u64>; 4] = [vec![], vec![1], vec![t.range(2, 9)], vec![t.range(1, 4), t.range(1, 40), 1]];
        let mut case_no = t.below(4) as usize;
        for (bytes, kind, note) in variants(t, &b, full) {
            let mut sc = Scenario::new("c17");
            case_no += 1;
            if !scripts[case_no % 4].is_empty() {
                sc.set_l("src_script", scripts[case_no % 4].clone());
            }
            sc.set_i("ep", ep);
            if ep == EP_XZ {
                let plan = XzPlan {
                    check_id: 0,
                    blocks: vec![BlockPlan {
                        payload: bytes,
                        content: b.expect.clone(),
                        ..Default::default()
                    }],
                    ..Default::default()
                };
                sc.set_b("input", build_xz(&plan).bytes);
            } else {
                sc.set_b("input", bytes);
                if ep == EP_RAW_LZMA2 && (kind == "bad_props" || kind == "bad_control") {
                    sc.set_b("base", b.bytes.clone());
                }
            }
            sc.note = format!("{} | {} | chunks: {}", kind, note, b.note);
            let key: &'static str = match kind {
                "bad_control" => "fault.fired.control_byte_0x03_0x7f",
                "bad_props" => "fault.fired.property_byte_invalid",
                "csize_lowered" => "fault.fired.compressed_size_lowered",
                "usize_lowered" => "fault.fired.uncompressed_size_lowered",
                "usize_raised" => "fault.fired.uncompressed_size_raised",
                "uncompressed_truncated" => "fault.fired.uncompressed_chunk_short",
                _ => "fault.fired.input_ends_before_end_byte",
            };
            ctx.stats.hit(key);
            let r = exec_one(&sc, ctx);
            if !r.is_empty() {
                return r;
            }
        }
        // a compressed chunk that stops short of its declared size by way of an
        // end-of-stream marker (exact compressed size, marker last)
        for _ in 0..2 {
            let mut w = Lzma2Writer::new();
            let cfg = crate::gen::draw_cfg(t);
            let mut ps = crate::gen::ProgStats::default();
            let mut note = String::new();
            if t.below(2) == 0 {
                let n = t.range(1, 40) as usize;
                let data = crate::gen::draw_bytes(t, n);
                w.raw_chunk(true, &data);
                note.push_str("U1 ");
            }
            let first = w.chunks.is_empty();
            let reset: u8 = if first { 3 } else { 2 + t.below(2) as u8 };
            let ts = w.enc.trace.len();
            w.begin_lzma_chunk(reset, Some(crate::gen::draw_props(t, true)));
            let target = t.range(0, 120);
            crate::gen::gen_program(t, &cfg, &mut w.enc, target, 3000, &mut ps);
            w.enc.encode_end_marker();
            let k = [1usize, 2, 17, 300, 70_000][t.below(5) as usize];
            if !w.end_lzma_chunk_extra(reset, ts, k) {
                continue;
            }
            note.push_str("L+marker ");
            if t.below(2) == 0 {
                let n = t.range(1, 20) as usize;
                let data = crate::gen::draw_bytes(t, n);
                w.raw_chunk(false, &data);
                note.push_str("U2 ");
            }
            w.end();
            let mut sc = Scenario::new("c17");
            sc.set_i("ep", [EP_LZMA2, EP_RAW_LZMA2][t.below(2) as usize]);
            sc.set_b("input", std::mem::take(&mut w.bytes));
            sc.note = format!(
                "marker_in_chunk | compressed chunk ends with an end marker {} byte(s) short of its declared size | chunks: {}",
                k, note
            );
            ctx.stats.hit("fault.fired.end_marker_before_declared_size");
            let r = exec_one(&sc, ctx);
            if !r.is_empty() {
                return r;
            }
        }
        Vec::new()
    }
    fn replay(&self, sc: &Scenario, ctx: &mut Ctx) -> Vec<Violation> {
        exec_one(sc, ctx)
    }
}
