//! C11 — decoders consume exactly the compressed payload and nothing after it;
//! whole-file decoders that define an end reject trailing bytes.

use super::common::*;
use crate::drive::*;
use crate::env::*;
use crate::gen;
use crate::prng::Tape;
use crate::refmodel::container::build_xz;
use crate::runner::{Ctx, SimpleProp, Tier};
use crate::scenario::{Scenario, Violation};
use std::io::BufReader;
use std::rc::Rc;

fn draw_trailing(t: &mut Tape, second: &[u8]) -> (Vec<u8>, &'static str) {
    match t.below(6) {
        0 => (Vec::new(), "none"),
        1 => (vec![0u8; t.range(1, 40) as usize], "zeros"),
        2 => {
            let n = t.range(1, 40) as usize;
            (gen::draw_bytes(t, n), "random")
        }
        3 => (second.to_vec(), "second payload"),
        4 => (vec![t.byte()], "one byte"),
        _ => (vec![0xFFu8; t.range(1, 8) as usize], "0xFF bytes"),
    }
}

fn gen(t: &mut Tape, _tier: Tier) -> Scenario {
    let mut sc = Scenario::new("c11");
    let kind = t.below(8);
    let mut opts = OptSpec::default();
    let mut raw = RawSpec::default();
    let mut must_reject = false;
    let payload_len;
    let mut input;
    match kind {
        0..=2 => {
            // size-bounded LZMA, all three header options
            let b = gen_lzma(t, 2, 3000);
            opts.mode = t.below(3);
            input = match opts.mode {
                0 => b.std_file(),
                1 => {
                    opts.provided = Some(b.expect.len() as u64);
                    // the ignored header field: all-ones, zero, the true size, garbage
                    let f = match t.below(4) {
                        0 => u64::MAX,
                        1 => 0,
                        2 => b.expect.len() as u64,
                        _ => t.u64(),
                    };
                    b.file(Some(f))
                }
                _ => {
                    opts.provided = Some(b.expect.len() as u64);
                    b.file(None)
                }
            };
            payload_len = input.len();
            sc.set_i("ep", EP_LZMA);
            sc.set_b("expect", b.expect);
            sc.note = "size-bounded .lzma".into();
        }
        3 => {
            let dict = t.range(1, 5000);
            let b = gen_lzma_raw_dict(t, dict, 2, 2000);
            raw = RawSpec {
                lc: b.props.lc,
                lp: b.props.lp,
                pb: b.props.pb,
                dict: dict as u32,
                size: Some(b.expect.len() as u64),
            };
            input = b.payload;
            payload_len = input.len();
            sc.set_i("ep", EP_RAW_LZMA);
            sc.set_b("expect", b.expect);
            sc.note = "size-bounded raw LZMA".into();
        }
        4 | 5 => {
            let b = gen_lzma2(t, 2500, true);
            input = b.bytes;
            payload_len = input.len();
            sc.set_i("ep", if kind == 4 { EP_LZMA2 } else { EP_RAW_LZMA2 });
            sc.set_b("expect", b.expect);
            sc.note = format!("LZMA2 {}", b.note);
        }
        6 => {
            // marker-terminated LZMA: any trailing byte must be refused
            let b = gen_lzma(t, 1, 2000);
            input = b.std_file();
            payload_len = input.len();
            sc.set_i("ep", EP_LZMA);
            sc.set_b("expect", b.expect);
            must_reject = true;
            sc.note = "marker-terminated .lzma".into();
        }
        _ => {
            let plan = gen_xz_plan(t, 500);
            let built = build_xz(&plan);
            input = built.bytes;
            payload_len = input.len();
            sc.set_i("ep", EP_XZ);
            sc.set_b("expect", built.content);
            must_reject = true;
            sc.note = "xz file".into();
        }
    }
    let second = input.clone();
    let (mut trailing, tn) = draw_trailing(t, &second);
    // chained use: decode two payloads back to back from one reader
    let chained = !must_reject && t.below(4) == 0;
    if chained {
        trailing = second.clone();
        sc.set_i("chained", 1);
    }
    if must_reject && trailing.is_empty() {
        must_reject = false; // control: nothing after the end -> must succeed
    }
    sc.note.push_str(&format!(", trailing: {} ({} bytes){}", tn, trailing.len(), if chained { ", chained" } else { "" }));
    input.extend_from_slice(&trailing);
    sc.set_b("input", input);
    sc.set_i("payload_len", payload_len as u64);
    sc.set_i("must_reject", must_reject as u64);
    opts.store(&mut sc);
    raw.store(&mut sc);
    let mut rk = [RK_SIM, RK_SLICE, RK_CURSOR, RK_BUFREADER, RK_CHAIN, RK_TAKE][t.below(6) as usize];
    if chained && rk >= RK_CHAIN {
        rk = RK_SIM;
    }
    if must_reject && rk == RK_TAKE {
        rk = RK_CHAIN; // a Take would hide the trailing bytes
    }
    sc.set_i("rk", rk);
    sc.set_i(
        "bufcap",
        match rk {
            RK_TAKE => payload_len as u64, // the decoder may see exactly the payload
            RK_CHAIN => t.below(payload_len as u64 + 2),
            _ => t.range(1, 200),
        },
    );
    sc.set_l("src_script", gen::draw_script(t));
    sc
}

fn exec(sc: &Scenario, ctx: &mut Ctx) -> Vec<Violation> {
    let ep = sc.i("ep");
    let opts = OptSpec::load(sc);
    let raw = RawSpec::load(sc);
    let expect = Rc::new(sc.b("expect").to_vec());
    let plen = sc.i("payload_len") as usize;
    let input = sc.b("input");
    let rk = sc.i("rk");
    match rk {
        RK_SLICE => ctx.stats.hit("arm.reader_slice"),
        RK_CURSOR => ctx.stats.hit("arm.reader_cursor"),
        RK_BUFREADER => ctx.stats.hit("arm.reader_std_bufreader_over_short_reads"),
        RK_CHAIN => ctx.stats.hit("arm.reader_std_chain_of_two_slices"),
        RK_TAKE => ctx.stats.hit("arm.reader_std_take_limited_to_the_payload"),
        _ => ctx.stats.hit("arm.reader_simsource"),
    }
    if sc.i("chained") == 1 {
        // two decodes from the same reader
        ctx.stats.hit("probe.chained_decode_from_one_reader");
        let mut consumed = Vec::new();
        let mut verdicts = Vec::new();
        let mut outs = Vec::new();
        macro_rules! chain {
            ($r:expr, $pos:expr) => {{
                for _ in 0..2 {
                    let mut out = Vec::new();
                    let v = call_decoder(ep, $r, &mut out, &opts, &raw);
                    verdicts.push(v);
                    outs.push(out);
                    consumed.push($pos($r));
                }
            }};
        }
        match rk {
            RK_SLICE => {
                let mut r: &[u8] = input;
                let total = input.len();
                chain!(&mut r, |r: &mut &[u8]| total - r.len());
            }
            RK_CURSOR => {
                let mut r = std::io::Cursor::new(input);
                chain!(&mut r, |r: &mut std::io::Cursor<&[u8]>| r.position() as usize);
            }
            RK_BUFREADER => {
                let inner = ShortReader::new(input, sc.l("src_script"), Faults::none());
                let mut r = BufReader::with_capacity((sc.i("bufcap") as usize).max(1), inner);
                chain!(&mut r, |r: &mut BufReader<ShortReader>| r.get_ref().pos - r.buffer().len());
            }
            _ => {
                let mut r = SimSource::new(input, sc.l("src_script"), Faults::none());
                chain!(&mut r, |r: &mut SimSource| r.consumed());
            }
        }
        ctx.stats.eval(sc.hash(), true, 4);
        for i in 0..2 {
            if let Verdict::Panic(p) = &verdicts[i] {
                return vec![Violation::new("panic", &panic_locus(p), p.clone(), sc)];
            }
            if !verdicts[i].is_ok() || outs[i] != *expect {
                return vec![Violation::new(
                    "chained_decode_failed",
                    ep_name(ep),
                    format!("decode #{} from the shared reader: {} ({} bytes, expected {})", i + 1, verdicts[i].short(), outs[i].len(), expect.len()),
                    sc,
                )];
            }
            if consumed[i] != plen * (i + 1) {
                return vec![Violation::new(
                    "wrong_consumed_count",
                    ep_name(ep),
                    format!("after decode #{} the reader is at {}, payload ends at {}", i + 1, consumed[i], plen * (i + 1)),
                    sc,
                )];
            }
        }
        return Vec::new();
    }
    let (mut sink, st) = SimSink::new(Some(expect.clone()), &[], Faults::none(), Faults::none());
    let (v, ro) = run_with_reader(
        ep,
        input,
        rk,
        sc.l("src_script"),
        Faults::none(),
        sc.i("bufcap") as usize,
        &mut sink,
        &opts,
        &raw,
        0,
        0,
    );
    let s = st.borrow();
    let trailing = input.len() - plen;
    if trailing > 0 {
        ctx.stats.hit("probe.trailing_bytes_present");
    }
    ctx.stats.eval(sc.hash() ^ ro.log, true, ro.calls + s.writes);
    if let Verdict::Panic(p) = &v {
        return vec![Violation::new("panic", &panic_locus(p), p.clone(), sc)];
    }
    if sc.i("must_reject") == 1 {
        ctx.stats.hit("arm.whole_file_decoder_with_trailing_bytes");
        if v.is_ok() {
            return vec![Violation::new(
                "accepts_trailing_bytes",
                ep_name(ep),
                format!("{} trailing byte(s) after the defined end were accepted ({})", trailing, sc.note),
                sc,
            )];
        }
        return Vec::new();
    }
    ctx.stats.hit("arm.embedded_payload");
    if !v.is_ok() {
        return vec![Violation::new(
            "rejects_valid_payload",
            ep_name(ep),
            format!("{} ({})", v.short(), sc.note),
            sc,
        )];
    }
    if s.first_bad.is_some() || s.accepted.len() != expect.len() {
        return vec![Violation::new(
            "wrong_output",
            ep_name(ep),
            format!("delivered {} bytes, expected {}", s.accepted.len(), expect.len()),
            sc,
        )];
    }
    if ro.consumed != plen {
        return vec![Violation::new(
            "wrong_consumed_count",
            ep_name(ep),
            format!(
                "reader left at offset {}, the compressed payload ends at {} ({} trailing bytes; {})",
                ro.consumed, plen, trailing, sc.note
            ),
            sc,
        )];
    }
    Vec::new()
}

pub static C11: SimpleProp = SimpleProp {
    id: "C11",
    level: "exploration",
    rule: "one evaluation = one decode of (valid size-bounded LZMA payload under each header option, raw LZMA, or LZMA2 stream) followed by trailing bytes (none / zeros / random / 0xFF / a second payload), through a slice, Cursor, real std BufReader (capacity 1..200 over short reads) or SimSource; reader position afterwards must equal header + encoder-emitted payload length; chained: two payloads decoded back to back from one reader; conversely marker-terminated .lzma and .xz with >= 1 trailing byte must fail; distinct by scenario hash, all non-trivial",
    runs_quick: 60_000,
    runs_thorough: 3_000_000,
    both_profiles: false,
    assumptions: &[
        "payload length = bytes emitted by the reference encoder (5 + one byte per normalisation), which the self-test shows equals what an eager decoder consumes",
    ],
    gen,
    exec,
    enumerate: None,
};
