//! C11 — decoders consume exactly the compressed payload and nothing after it;
//! whole-file decoders that define an end reject trailing bytes.

use super::common::*;
use crate::drive::*;
use crate::env::*;
use crate::gen;
use crate::prng::Tape;
use crate::refmodel::codec::RefEnc;
use crate::refmodel::container::build_xz;
use crate::runner::{Ctx, SimpleProp, Tier};
use crate::scenario::{Scenario, Violation};
use std::io::BufReader;
use std::rc::Rc;

fn draw_trailing(t: &mut Tape, second: &[u8]) -> (Vec<u8>, &'static str) {
    match t.below(6) {
        0 => (Vec::new(), "none"),
        1 => (vec![0u8; t.range(1, 40) as usize], "zeros"),
        2 => {
            let n = t.range(1, 40) as usize;
            (gen::draw_bytes(t, n), "random")
        }
        3 => (second.to_vec(), "second payload"),
        4 => (vec![t.byte()], "one byte"),
        _ => (vec![0xFFu8; t.range(1, 8) as usize], "0xFF bytes"),
    }
}

/// A container of 2-3 raw payloads decoded in place by ONE reused raw decoder
/// with a reset between them (the documented use of `reset`): size-bounded
/// payloads first, optionally a marker-terminated one last.
fn gen_reused(t: &mut Tape) -> Scenario {
    let mut sc = Scenario::new("c11");
    sc.set_i("reused", 1);
    let lzma2 = t.below(3) == 0;
    sc.set_i("lzma2", lzma2 as u64);
    let n = t.range(2, 3) as usize;
    let mut sizes = Vec::new();
    let mut notes = Vec::new();
    if lzma2 {
        for i in 0..n {
            let b = gen_lzma2(t, 1200, true);
            notes.push(format!("p{}: {}", i, b.note));
            sc.set_b(&format!("p{}", i), b.bytes);
            sc.set_b(&format!("e{}", i), b.expect);
            sizes.push(0);
        }
    } else {
        let props = gen::draw_props(t, false);
        let dict = [1u64, 16, 64, 4096, 1 << 16][t.below(5) as usize];
        RawSpec { lc: props.lc, lp: props.lp, pb: props.pb, dict: dict as u32, size: None, pre: None }.store(&mut sc);
        let cfg = gen::draw_cfg(t);
        let last_marker = t.below(2) == 1;
        for i in 0..n {
            let mut enc = RefEnc::new(props, dict);
            let target = match t.below(3) {
                0 => t.range(0, 12),
                1 => t.range(1, 200),
                _ => t.range(1, 1500),
            };
            gen::gen_program(t, &cfg, &mut enc, target, 4000, &mut gen::ProgStats::default());
            let marker = last_marker && i == n - 1;
            if marker {
                enc.encode_end_marker();
            }
            let bytes = enc.finish_segment();
            notes.push(format!("p{}: out={} marker={}", i, enc.model.out.len(), marker));
            // how the size for this payload is announced: 0 = constructor/Some(Some(n)),
            // 1 = reset(None) when the size in effect is already right
            sizes.push(if marker { u64::MAX } else { enc.model.out.len() as u64 });
            sc.set_b(&format!("p{}", i), bytes);
            sc.set_b(&format!("e{}", i), enc.model.out.clone());
        }
    }
    sc.set_l("sizes", sizes);
    sc.set_i("n", n as u64);
    sc.set_i("keep_if_same", t.below(2));
    // trailing bytes after the last payload only when it is size-bounded LZMA
    let trailing = if !lzma2 && sc.l("sizes")[n - 1] != u64::MAX && t.below(2) == 1 {
        let k = t.range(1, 20) as usize;
        gen::draw_bytes(t, k)
    } else {
        Vec::new()
    };
    sc.set_b("trailing", trailing);
    sc.set_i("rk", [RK_SIM, RK_SLICE, RK_CURSOR, RK_BUFREADER][t.below(4) as usize]);
    sc.set_i("bufcap", gen::draw_bufcap(t, 200));
    sc.set_l("src_script", gen::draw_script(t));
    sc.note = format!("one reused {} over a container: {}", if lzma2 { "Lzma2Decoder" } else { "LzmaDecoder" }, notes.join("; "));
    sc
}

fn exec_reused(sc: &Scenario, ctx: &mut Ctx) -> Vec<Violation> {
    use lzma_rs::decompress::raw::{Lzma2Decoder, LzmaDecoder, LzmaParams, LzmaProperties};
    let lzma2 = sc.i("lzma2") == 1;
    let n = sc.i("n") as usize;
    let sizes = sc.l("sizes");
    let raw = RawSpec::load(sc);
    let mut input = Vec::new();
    let mut ends = Vec::new();
    for i in 0..n {
        input.extend_from_slice(sc.b(&format!("p{}", i)));
        ends.push(input.len());
    }
    input.extend_from_slice(sc.b("trailing"));
    ctx.stats.hit(if lzma2 { "arm.reused_lzma2_decoder_over_a_container" } else { "arm.reused_lzma_decoder_over_a_container" });
    if sizes.last() == Some(&u64::MAX) {
        ctx.stats.hit("probe.reused_decoder_switched_to_marker_termination");
    }
    let size_of = |i: usize| if sizes[i] == u64::MAX { None } else { Some(sizes[i]) };
    let keep = sc.i("keep_if_same") == 1;
    // (verdict, output, reader position) per payload
    let mut got: Vec<(Verdict, Vec<u8>, usize)> = Vec::new();
    macro_rules! chain {
        ($r:expr, $pos:expr) => {{
            let res = guarded(|| {
                let mut d1 = None;
                let mut d2 = None;
                if lzma2 {
                    d2 = Some(Lzma2Decoder::new());
                } else {
                    let params = LzmaParams::new(LzmaProperties { lc: raw.lc, lp: raw.lp, pb: raw.pb }, raw.dict, size_of(0));
                    match LzmaDecoder::new(params, None) {
                        Ok(d) => d1 = Some(d),
                        Err(e) => {
                            got.push((Verdict::Err(e.to_string()), Vec::new(), 0));
                            return;
                        }
                    }
                }
                for i in 0..n {
                    if i > 0 {
                        if let Some(d) = d1.as_mut() {
                            if keep && size_of(i) == size_of(i - 1) {
                                d.reset(None);
                            } else {
                                d.reset(Some(size_of(i)));
                            }
                        }
                        if let Some(d) = d2.as_mut() {
                            d.reset();
                        }
                    }
                    let mut out = Vec::new();
                    let v = if let Some(d) = d1.as_mut() {
                        d.decompress($r, &mut out).map_err(|e| e.to_string())
                    } else {
                        d2.as_mut().unwrap().decompress($r, &mut out).map_err(|e| e.to_string())
                    };
                    let v = match v {
                        Ok(()) => Verdict::Ok,
                        Err(e) => Verdict::Err(e),
                    };
                    let stop = !v.is_ok();
                    let pos = $pos($r);
                    crate::heap::driver(|| got.push((v, out, pos)));
                    if stop {
                        return;
                    }
                }
            });
            res
        }};
    }
    let res = match sc.i("rk") {
        RK_SLICE => {
            let mut r: &[u8] = &input;
            let total = input.len();
            chain!(&mut r, |r: &mut &[u8]| total - r.len())
        }
        RK_CURSOR => {
            let mut r = std::io::Cursor::new(&input[..]);
            chain!(&mut r, |r: &mut std::io::Cursor<&[u8]>| r.position() as usize)
        }
        RK_BUFREADER => {
            let inner = ShortReader::new(&input, sc.l("src_script"), Faults::none());
            let mut r = BufReader::with_capacity((sc.i("bufcap") as usize).max(1), inner);
            chain!(&mut r, |r: &mut BufReader<ShortReader>| r.get_ref().pos - r.buffer().len())
        }
        _ => {
            let mut r = SimSource::new(&input, sc.l("src_script"), Faults::none());
            chain!(&mut r, |r: &mut SimSource| r.consumed())
        }
    };
    ctx.stats.eval(sc.hash(), true, 2 * n as u64);
    if let Err(p) = res {
        return vec![Violation::new("panic", &panic_locus(&p), p, sc)];
    }
    let locus = if lzma2 { "raw::Lzma2Decoder reused" } else { "raw::LzmaDecoder reused" };
    for i in 0..n {
        let exp = sc.b(&format!("e{}", i));
        let Some((v, out, pos)) = got.get(i) else { break };
        if !v.is_ok() || out != exp {
            return vec![Violation::new(
                "chained_decode_failed",
                locus,
                format!("payload #{} (size in effect {:?}): {} with {} bytes, expected {}", i + 1, size_of(i), v.short(), out.len(), exp.len()),
                sc,
            )];
        }
        if *pos != ends[i] {
            return vec![Violation::new(
                "wrong_consumed_count",
                locus,
                format!("after payload #{} the reader is at {}, the payload ends at {}", i + 1, pos, ends[i]),
                sc,
            )];
        }
    }
    Vec::new()
}

fn gen(t: &mut Tape, _tier: Tier) -> Scenario {
    if t.below(8) == 0 {
        return gen_reused(t);
    }
    let mut sc = Scenario::new("c11");
    let kind = t.below(8);
    let mut opts = OptSpec::default();
    let mut raw = RawSpec::default();
    let mut must_reject = false;
    let mut inner_junk = 0u64;
    let payload_len;
    let mut input;
    match kind {
        0..=2 => {
            // size-bounded LZMA, all three header options; now and then the payload
            // carries an end marker as well (legal: LZMA SDK -eos with a known size) -
            // the decode ends when the size is reached, in front of the marker
            let sized_marker = t.below(5) == 0;
            if sized_marker {
                sc.set_i("sized_marker", 1);
            }
            let b = gen_lzma(t, if sized_marker { 1 } else { 2 }, 3000);
            opts.mode = t.below(3);
            input = match opts.mode {
                0 => b.file(Some(b.expect.len() as u64)),
                1 => {
                    opts.provided = Some(b.expect.len() as u64);
                    // the ignored header field: all-ones, zero, the true size, garbage
                    let f = match t.below(4) {
                        0 => u64::MAX,
                        1 => 0,
                        2 => b.expect.len() as u64,
                        _ => t.u64(),
                    };
                    b.file(Some(f))
                }
                _ => {
                    opts.provided = Some(b.expect.len() as u64);
                    b.file(None)
                }
            };
            payload_len = input.len();
            sc.set_i("ep", EP_LZMA);
            sc.set_b("expect", b.expect);
            sc.note = "size-bounded .lzma".into();
        }
        3 => {
            let dict = t.range(1, 5000);
            let sized_marker = t.below(5) == 0;
            if sized_marker {
                sc.set_i("sized_marker", 1);
            }
            let b = gen_lzma_raw_dict(t, dict, if sized_marker { 1 } else { 2 }, 2000);
            raw = RawSpec {
                lc: b.props.lc,
                lp: b.props.lp,
                pb: b.props.pb,
                dict: dict as u32,
                size: Some(b.expect.len() as u64),
                pre: None,
            };
            input = b.payload;
            payload_len = input.len();
            sc.set_i("ep", EP_RAW_LZMA);
            sc.set_b("expect", b.expect);
            sc.note = "size-bounded raw LZMA".into();
        }
        4 | 5 => {
            // now and then the big plans and chunk sizes on the boundaries of the size field
            let b = match t.below(60) {
                0 => gen_lzma2(t, 300_000, true),
                1 => gen_lzma2_size_boundary(t),
                _ => gen_lzma2(t, 2500, true),
            };
            input = b.bytes;
            payload_len = input.len();
            sc.set_i("ep", if kind == 4 { EP_LZMA2 } else { EP_RAW_LZMA2 });
            sc.set_b("expect", b.expect);
            sc.note = format!("LZMA2 {}", b.note);
        }
        6 => {
            // marker-terminated LZMA: any trailing byte must be refused
            let b = gen_lzma(t, 1, 2000);
            input = b.std_file();
            payload_len = input.len();
            sc.set_i("ep", EP_LZMA);
            sc.set_b("expect", b.expect);
            must_reject = true;
            sc.note = "marker-terminated .lzma".into();
        }
        _ => {
            let mut plan = gen_xz_plan(t, 500);
            let mut built = build_xz(&plan);
            sc.note = "xz file".into();
            // now and then the bytes that must not be there sit INSIDE a block: 1-4
            // bytes after the LZMA2 end byte, covered by the block's stored compressed
            // size and by its index record (every enclosing field consistent)
            let nb = plan.blocks.len();
            if nb > 0 && nb <= 8 && t.below(3) == 0 {
                let bi = t.below(nb as u64) as usize;
                let k = t.range(1, 4);
                let fill = [0u8, 0xFF, t.byte(), 1][t.below(4) as usize];
                for _ in 0..k {
                    plan.blocks[bi].payload.push(fill);
                }
                plan.blocks[bi].has_csize = true;
                let b2 = build_xz(&plan);
                if crate::refmodel::container::ref_xz_decode(&b2.bytes).is_err() {
                    built = b2;
                    inner_junk = k;
                    sc.note = format!("xz file with {} byte(s) 0x{:02x} after the LZMA2 end byte of block {}, inside its stored compressed size", k, fill, bi);
                }
            }
            input = built.bytes;
            payload_len = input.len();
            sc.set_i("ep", EP_XZ);
            sc.set_b("expect", built.content);
            must_reject = true;
        }
    }
    let second = input.clone();
    let (mut trailing, tn) = draw_trailing(t, &second);
    // chained use: decode two payloads back to back from one reader
    let chained = !must_reject && sc.i("sized_marker") == 0 && t.below(4) == 0;
    if chained {
        trailing = second.clone();
        sc.set_i("chained", 1);
    }
    if must_reject && trailing.is_empty() && inner_junk == 0 {
        must_reject = false; // control: nothing after the end -> must succeed
    }
    sc.note.push_str(&format!(", trailing: {} ({} bytes){}", tn, trailing.len(), if chained { ", chained" } else { "" }));
    input.extend_from_slice(&trailing);
    sc.set_b("input", input);
    sc.set_i("payload_len", payload_len as u64);
    sc.set_i("must_reject", must_reject as u64);
    opts.store(&mut sc);
    raw.store(&mut sc);
    let mut rk = [RK_SIM, RK_SLICE, RK_CURSOR, RK_BUFREADER, RK_CHAIN, RK_TAKE][t.below(6) as usize];
    if chained && rk >= RK_CHAIN {
        rk = RK_SIM;
    }
    if must_reject && rk == RK_TAKE {
        rk = RK_CHAIN; // a Take would hide the trailing bytes
    }
    sc.set_i("rk", rk);
    sc.set_i(
        "bufcap",
        match rk {
            RK_TAKE => payload_len as u64, // the decoder may see exactly the payload
            RK_CHAIN => t.below(payload_len as u64 + 2),
            _ => gen::draw_bufcap(t, 200),
        },
    );
    sc.set_l("src_script", gen::draw_script(t));
    sc
}

fn exec(sc: &Scenario, ctx: &mut Ctx) -> Vec<Violation> {
    let ep = sc.i("ep");
    let opts = OptSpec::load(sc);
    let raw = RawSpec::load(sc);
    let expect = Rc::new(sc.b("expect").to_vec());
    let plen = sc.i("payload_len") as usize;
    let input = sc.b("input");
    let rk = sc.i("rk");
    if sc.i("reused") == 1 {
        return exec_reused(sc, ctx);
    }
    match rk {
        RK_SLICE => ctx.stats.hit("arm.reader_slice"),
        RK_CURSOR => ctx.stats.hit("arm.reader_cursor"),
        RK_BUFREADER => ctx.stats.hit("arm.reader_std_bufreader_over_short_reads"),
        RK_CHAIN => ctx.stats.hit("arm.reader_std_chain_of_two_slices"),
        RK_TAKE => ctx.stats.hit("arm.reader_std_take_limited_to_the_payload"),
        _ => ctx.stats.hit("arm.reader_simsource"),
    }
    if sc.i("chained") == 1 {
        // two decodes from the same reader
        ctx.stats.hit("probe.chained_decode_from_one_reader");
        let mut consumed = Vec::new();
        let mut verdicts = Vec::new();
        let mut outs = Vec::new();
        macro_rules! chain {
            ($r:expr, $pos:expr) => {{
                for _ in 0..2 {
                    let mut out = Vec::new();
                    let v = call_decoder(ep, $r, &mut out, &opts, &raw);
                    verdicts.push(v);
                    outs.push(out);
                    consumed.push($pos($r));
                }
            }};
        }
        match rk {
            RK_SLICE => {
                let mut r: &[u8] = input;
                let total = input.len();
                chain!(&mut r, |r: &mut &[u8]| total - r.len());
            }
            RK_CURSOR => {
                let mut r = std::io::Cursor::new(input);
                chain!(&mut r, |r: &mut std::io::Cursor<&[u8]>| r.position() as usize);
            }
            RK_BUFREADER => {
                let inner = ShortReader::new(input, sc.l("src_script"), Faults::none());
                let mut r = BufReader::with_capacity((sc.i("bufcap") as usize).max(1), inner);
                chain!(&mut r, |r: &mut BufReader<ShortReader>| r.get_ref().pos - r.buffer().len());
            }
            _ => {
                let mut r = SimSource::new(input, sc.l("src_script"), Faults::none());
                chain!(&mut r, |r: &mut SimSource| r.consumed());
            }
        }
        ctx.stats.eval(sc.hash(), true, 4);
        for i in 0..2 {
            if let Verdict::Panic(p) = &verdicts[i] {
                return vec![Violation::new("panic", &panic_locus(p), p.clone(), sc)];
            }
            if !verdicts[i].is_ok() || outs[i] != *expect {
                return vec![Violation::new(
                    "chained_decode_failed",
                    ep_name(ep),
                    format!("decode #{} from the shared reader: {} ({} bytes, expected {})", i + 1, verdicts[i].short(), outs[i].len(), expect.len()),
                    sc,
                )];
            }
            if consumed[i] != plen * (i + 1) {
                return vec![Violation::new(
                    "wrong_consumed_count",
                    ep_name(ep),
                    format!("after decode #{} the reader is at {}, payload ends at {}", i + 1, consumed[i], plen * (i + 1)),
                    sc,
                )];
            }
        }
        return Vec::new();
    }
    let (mut sink, st) = SimSink::new(Some(expect.clone()), &[], Faults::none(), Faults::none());
    let (v, ro) = run_with_reader(
        ep,
        input,
        rk,
        sc.l("src_script"),
        Faults::none(),
        sc.i("bufcap") as usize,
        &mut sink,
        &opts,
        &raw,
        0,
        0,
    );
    let s = st.borrow();
    let trailing = input.len() - plen;
    if trailing > 0 {
        ctx.stats.hit("probe.trailing_bytes_present");
    }
    if sc.note.contains("after the LZMA2 end byte of block") {
        ctx.stats.hit("probe.bytes_after_the_lzma2_end_inside_a_block");
    }
    ctx.stats.eval(sc.hash() ^ ro.log, true, ro.calls + s.writes);
    if let Verdict::Panic(p) = &v {
        return vec![Violation::new("panic", &panic_locus(p), p.clone(), sc)];
    }
    if sc.i("must_reject") == 1 {
        ctx.stats.hit("arm.whole_file_decoder_with_trailing_bytes");
        if v.is_ok() {
            return vec![Violation::new(
                "accepts_trailing_bytes",
                ep_name(ep),
                format!("{} trailing byte(s) after the defined end were accepted ({})", trailing, sc.note),
                sc,
            )];
        }
        return Vec::new();
    }
    ctx.stats.hit("arm.embedded_payload");
    if !v.is_ok() {
        return vec![Violation::new(
            "rejects_valid_payload",
            ep_name(ep),
            format!("{} ({})", v.short(), sc.note),
            sc,
        )];
    }
    if s.first_bad.is_some() || s.accepted.len() != expect.len() {
        return vec![Violation::new(
            "wrong_output",
            ep_name(ep),
            format!("delivered {} bytes, expected {}", s.accepted.len(), expect.len()),
            sc,
        )];
    }
    if sc.i("sized_marker") == 1 {
        // the size in effect ends the decode in front of the marker: the reader must
        // stand exactly where it stands when nothing at all follows the payload
        ctx.stats.hit("probe.size_bounded_payload_that_also_carries_an_end_marker");
        let (v0, out0, used0) = simple_decode(ep, &input[..plen], &opts, &raw);
        if !v0.is_ok() || out0 != *expect {
            return vec![Violation::new("rejects_valid_payload", ep_name(ep), format!("alone (nothing after it): {} ({})", v0.short(), sc.note), sc)];
        }
        if ro.consumed != used0 || used0 > plen {
            return vec![Violation::new(
                "wrong_consumed_count",
                ep_name(ep),
                format!("reader left at offset {}; with nothing after the payload it is left at {} (payload incl. marker ends at {}; {})", ro.consumed, used0, plen, sc.note),
                sc,
            )];
        }
        return Vec::new();
    }
    if ro.consumed != plen {
        return vec![Violation::new(
            "wrong_consumed_count",
            ep_name(ep),
            format!(
                "reader left at offset {}, the compressed payload ends at {} ({} trailing bytes; {})",
                ro.consumed, plen, trailing, sc.note
            ),
            sc,
        )];
    }
    Vec::new()
}

pub static C11: SimpleProp = SimpleProp {
    id: "C11",
    level: "exploration",
    rule: "one evaluation = one decode of (valid size-bounded LZMA payload under each header option, raw LZMA, or LZMA2 stream) followed by trailing bytes (none / zeros / random / 0xFF / a second payload), through a slice, Cursor, real std BufReader (capacity 1..200 over short reads) or SimSource; reader position afterwards must equal header + encoder-emitted payload length; chained: two payloads decoded back to back from one reader; reused: 2-3 raw payloads decoded in place by ONE raw decoder with reset(None)/reset(Some(size))/reset(Some(None)) (or Lzma2Decoder::reset) between them, position and bytes checked after each; conversely marker-terminated .lzma and .xz with >= 1 trailing byte must fail, and so must an .xz file with 1-4 bytes after the LZMA2 end byte inside a block's stored compressed size (index consistent); distinct by scenario hash, all non-trivial",
    runs_quick: 200_000,
    runs_thorough: 24_000_000,
    both_profiles: false,
    assumptions: &[
        "payload length = bytes emitted by the reference encoder (5 + one byte per normalisation), which the self-test shows equals what an eager decoder consumes",
    ],
    gen,
    exec,
    enumerate: None,
};
