//! C18 — unsupported XZ features are refused explicitly. For every generated
//! valid file every unsupported feature is substituted in turn (all enclosing
//! CRCs consistent) — the refusal must come from the feature itself.

use super::common::*;
use crate::drive::*;
use crate::prng::Tape;
use crate::refmodel::container::*;
use crate::runner::{Ctx, Property, Tier};
use crate::scenario::{Scenario, Violation};

pub struct C18;

fn variants(t: &mut Tape, plan: &XzPlan) -> Vec<(XzPlan, String, String)> {
    // (plan, locus, note)
    let mut v = Vec::new();
    let nb = plan.blocks.len();
    for id in 0u8..16 {
        if id == 0 || id == 1 || id == 4 {
            continue;
        }
        let mut p = plan.clone();
        p.check_id = id;
        v.push((
            p,
            format!("check_id=0x{:02x} blocks={}", id, if nb == 0 { "0" } else { ">0" }),
            format!("check ID {} ({} blocks)", id, nb),
        ));
    }
    if nb > 0 {
        let bi = t.below(nb as u64) as usize;
        let mut ids: Vec<u64> = (0x03..=0x0B).collect();
        ids.extend_from_slice(&[
            0x4000_0000_0000_0000,
            0x4000_0000_0000_0001,
            0x3FFF_FFFF_FFFF_FFFF,
            0x20,
            0x22,
            0x00,
            0x01,
            0x02,
            0x2121,
            t.u64() & 0x7FFF_FFFF_FFFF_FFFF,
        ]);
        // 0x21 with two equal 7-bit groups elsewhere (integers are stored in 7-bit
        // groups: a decoder that lets two groups overlap cancels them), and 0x21 with
        // one extra bit anywhere above the low byte
        for _ in 0..3 {
            let i = t.range(1, 7);
            let j = t.range(i + 1, 8);
            let p7 = t.range(1, if j == 8 { 0x7F } else { 0x7F });
            ids.push(0x21 | (p7 << (7 * i)) | (p7 << (7 * j)));
        }
        ids.push(0x21 | (1u64 << t.range(8, 62)));
        for id in ids {
            if id == 0x21 {
                continue;
            }
            let props: Vec<u8> = match id {
                0x03 => vec![t.byte()],
                0x04..=0x0B => {
                    if t.below(2) == 0 {
                        vec![]
                    } else {
                        vec![0, 0, 0, 0]
                    }
                }
                _ => (0..t.below(4)).map(|_| 0u8).collect(),
            };
            // alone
            let mut p = plan.clone();
            p.blocks[bi].filters = vec![(id, props.clone())];
            v.push((p, "filter_alone".to_string(), format!("filter 0x{:x} alone in block {}", id, bi)));
            // in front of LZMA2
            let mut p = plan.clone();
            p.blocks[bi].filters = vec![(id, props.clone()), (0x21, vec![22])];
            v.push((p, "filter_before_lzma2".to_string(), format!("filter 0x{:x} before LZMA2 in block {}", id, bi)));
        }
        // a foreign filter listed AFTER LZMA2 (also id 0 with empty properties, whose
        // two bytes look like header padding)
        for (id, props) in [(0x00u64, vec![]), (0x00, vec![0u8]), (0x03, vec![0]), (0x04, vec![]), (0x0B, vec![]), (0x4000_0000_0000_0001, vec![])] {
            let mut p = plan.clone();
            p.blocks[bi].filters = vec![(0x21, vec![22]), (id, props)];
            v.push((p, "filter_after_lzma2".to_string(), format!("filter 0x{:x} after LZMA2 in block {}", id, bi)));
        }
        // LZMA2 not last / LZMA2 twice are legal chains for xz only if LZMA2 is last;
        // three and four filters with an unsupported one
        let mut p = plan.clone();
        p.blocks[bi].filters = vec![(0x03, vec![0]), (0x04, vec![]), (0x21, vec![22])];
        v.push((p, "filter_before_lzma2".to_string(), "delta + x86 BCJ + LZMA2".to_string()));
        // LZMA2 whose "size of properties" is not 1: with that many property bytes
        // present, and with the field merely claiming more than the header has left
        for k in [0u64, 2, 3, 4, 5, 6, 7, 8, 11, 12, 0x7F, 0x80, 1 << 32] {
            if k <= 12 {
                let mut p = plan.clone();
                p.blocks[bi].filters = vec![(0x21, vec![22u8; k as usize])];
                v.push((p, "lzma2_props_size".to_string(), format!("LZMA2 filter with {} property bytes in block {}", k, bi)));
            }
            if k > 1 {
                for pad in [0u32, 1, 2] {
                    let mut p = plan.clone();
                    p.blocks[bi].ov_props_size = Some(k);
                    p.blocks[bi].extra_pad4 = pad;
                    v.push((p, "lzma2_props_size".to_string(), format!("LZMA2 filter declaring {} property bytes with 1 present and {} extra padding words, in block {}", k, pad, bi)));
                }
            }
        }
        for bit in [0x04u8, 0x08, 0x10, 0x20, 0x3C] {
            let mut p = plan.clone();
            p.blocks[bi].flags_or = bit;
            v.push((p, "reserved_block_flag".to_string(), format!("block flags reserved bit(s) 0x{:02x} in block {}", bit, bi)));
        }
    }
    for (b0, b1) in [(1u8, 0u8), (0x80, 0), (0xFF, 0), (0, 0x10), (0, 0x20), (0, 0x40), (0, 0x80), (0, 0xF0)] {
        let mut p = plan.clone();
        let fl = [b0, plan.check_id | b1];
        p.ov_hflags = Some(fl);
        p.ov_fflags = Some(fl);
        // check field size follows the low nibble, which is unchanged
        v.push((p, "reserved_stream_flag".to_string(), format!("stream flags {:02x} {:02x}", fl[0], fl[1])));
        // the reserved bits on one side only (the other side carries the regular flags)
        let mut p = plan.clone();
        p.ov_hflags = Some(fl);
        p.ov_fflags = Some([0, plan.check_id]);
        v.push((p, "reserved_stream_flag".to_string(), format!("stream flags {:02x} {:02x} in the header only", fl[0], fl[1])));
        let mut p = plan.clone();
        p.ov_fflags = Some(fl);
        v.push((p, "reserved_stream_flag".to_string(), format!("stream flags {:02x} {:02x} in the footer only", fl[0], fl[1])));
    }
    let whole = build_xz(plan).bytes;
    {
        let mut p = plan.clone();
        p.trailing = whole.clone();
        v.push((p, "second_stream".to_string(), "the same stream appended once more".to_string()));
        let mut p = plan.clone();
        let other = XzPlan {
            check_id: plan.check_id,
            ..Default::default()
        };
        p.trailing = build_xz(&other).bytes;
        v.push((p, "second_stream".to_string(), "an empty stream appended".to_string()));
        for n in [1usize, 2, 3, 64] {
            let mut p = plan.clone();
            p.trailing = vec![0u8; 4 * n];
            v.push((p, "stream_padding".to_string(), format!("{} bytes of stream padding", 4 * n)));
            let mut p = plan.clone();
            p.trailing = vec![0u8; 4 * n];
            p.trailing.extend_from_slice(&whole);
            v.push((p, "second_stream".to_string(), format!("{} bytes of stream padding and a second stream", 4 * n)));
        }
    }
    v
}

/// Two identical consecutive blocks, then the second block's header replaced by
/// one of the same length that uses an unsupported filter and whose free bits are
/// solved (`forge_crc32`) so that its CRC32 field is byte for byte the first
/// header's: a decoder that recognises "the same header again" by size and CRC32
/// instead of by content decodes the block as LZMA2 and reports success.
fn forged_twins(t: &mut Tape, plan: &XzPlan) -> Vec<(Vec<u8>, String, String)> {
    let mut v = Vec::new();
    let nb = plan.blocks.len();
    if nb == 0 || nb > 8 {
        return v;
    }
    let bi = t.below(nb as u64) as usize;
    let mut p = plan.clone();
    let mut blk = p.blocks[bi].clone();
    if blk.extra_pad4 > 8 {
        blk.extra_pad4 = 0;
    }
    if t.below(2) == 0 {
        blk.extra_pad4 = blk.extra_pad4.max(1);
    }
    p.blocks[bi] = blk.clone();
    p.blocks.insert(bi + 1, blk);
    let built = build_xz(&p);
    let off = |name: String| built.fields.iter().find(|f| f.name == name).map(|f| f.off);
    let (Some(s1), Some(c1), Some(s2), Some(c2)) = (
        off(format!("block{}.size_byte", bi)),
        off(format!("block{}.header_crc32", bi)),
        off(format!("block{}.size_byte", bi + 1)),
        off(format!("block{}.header_crc32", bi + 1)),
    ) else {
        return v;
    };
    if c1 - s1 != c2 - s2 || built.bytes[s1..c1 + 4] != built.bytes[s2..c2 + 4] {
        return v;
    }
    let n = c2 - s2; // size byte + fields + padding
    let target = u32::from_le_bytes([built.bytes[c1], built.bytes[c1 + 1], built.bytes[c1 + 2], built.bytes[c1 + 3]]);
    let bcj = [0x04u8, 0x05, 0x06, 0x07, 0x08, 0x09, 0x0A, 0x0B];
    let mut cands: Vec<(Vec<u8>, Vec<usize>, String)> = Vec::new();
    // a BCJ filter alone with a four-byte start offset (free: the offset)
    let id = bcj[t.below(8) as usize];
    if n >= 8 {
        let mut h = vec![0u8; n];
        h[0] = built.bytes[s2];
        h[1] = 0x00;
        h[2] = id;
        h[3] = 4;
        cands.push((h, (32..64).collect(), format!("BCJ filter 0x{:02x} alone, start offset forged", id)));
    }
    // an unassigned filter with as many property bytes as the header has room for
    // (free: the last five of them)
    if n >= 9 {
        let id = [0x0Cu8, 0x1F, 0x20, 0x22, 0x7F][t.below(5) as usize];
        let mut h = vec![0u8; n];
        h[0] = built.bytes[s2];
        h[2] = id;
        h[3] = (n - 4) as u8;
        if n - 4 < 0x80 {
            cands.push((h, ((n - 5) * 8..n * 8).collect(), format!("unassigned filter 0x{:02x} alone with {} property bytes, the last five forged", id, n - 4)));
        }
    }
    // a BCJ filter in front of LZMA2
    if n >= 11 {
        let mut h = vec![0u8; n];
        h[0] = built.bytes[s2];
        h[1] = 0x01;
        h[2] = id;
        h[3] = 4;
        h[8] = 0x21;
        h[9] = 1;
        h[10] = 22;
        cands.push((h, (32..64).collect(), format!("BCJ filter 0x{:02x} in front of LZMA2, start offset forged", id)));
    }
    // a reserved flag bit, the compressed size field present (free: the 35 payload
    // bits of a five-byte integer whose top group stays non-zero)
    if n >= 10 {
        let mut h = vec![0u8; n];
        h[0] = built.bytes[s2];
        h[1] = 0x40 | [0x04u8, 0x08, 0x10, 0x20][t.below(4) as usize];
        for k in 2..6 {
            h[k] = 0x80;
        }
        h[6] = 0x40;
        h[7] = 0x21;
        h[8] = 1;
        h[9] = 22;
        let mut free: Vec<usize> = (2..6).flat_map(|b| (0..7).map(move |k| b * 8 + k)).collect();
        free.extend((0..6).map(|k| 6 * 8 + k));
        cands.push((h, free, String::new()));
        let last = cands.last_mut().unwrap();
        last.2 = format!("reserved block flag bits 0x{:02x} with a forged five-byte compressed size", last.0[1] & 0x3C);
    }
    for (mut h, free, what) in cands {
        if !crate::refmodel::crc::forge_crc32(&mut h, &free, target) {
            continue;
        }
        let mut bytes = built.bytes.clone();
        bytes[s2..c2].copy_from_slice(&h);
        if ref_xz_decode(&bytes).is_ok() {
            continue; // the harness's own decoder must refuse it too
        }
        v.push((
            bytes,
            "forged_twin_header".to_string(),
            format!("block {} repeats block {} except for its header: {}; same length and same CRC32 field 0x{:08x} as the header before", bi + 1, bi, what, target),
        ));
    }
    v
}

fn exec_one(sc: &Scenario, ctx: &mut Ctx) -> Vec<Violation> {
    ctx.begin(sc);
    let mut out = Vec::new();
    let (v, _) = run_with_reader(
        EP_XZ,
        sc.b("input"),
        if sc.l("src_script").is_empty() { RK_SLICE } else { RK_SIM },
        sc.l("src_script"),
        crate::env::Faults::from_list(sc.l("src_faults")),
        0,
        &mut out,
        &OptSpec::default(),
        &RawSpec::default(),
        0,
        0,
    );
    ctx.stats.eval(sc.hash(), true, 1);
    let locus = sc.note.split(" | ").next().unwrap_or("?").to_string();
    match &v {
        Verdict::Panic(p) => vec![Violation::new("panic", &panic_locus(p), p.clone(), sc)],
        Verdict::Ok => vec![Violation::new(
            "accepted",
            &locus,
            format!("xz_decompress returned Ok ({} bytes delivered) for a file using: {}", out.len(), sc.note),
            sc,
        )],
        Verdict::Err(_) => {
            ctx.stats.hit("verdict.err");
            Vec::new()
        }
    }
}

impl Property for C18 {
    fn id(&self) -> &'static str {
        "C18"
    }
    fn level(&self) -> &'static str {
        "fault_enumeration"
    }
    fn rule(&self) -> &'static str {
        "per seeded valid file (0-6 blocks, check None/CRC32/CRC64) every unsupported feature is substituted in turn with all CRCs, check-field sizes and SHA-256 values consistent: the 13 other check IDs, filter IDs 0x00-0x0B/0x20/0x22/0x4000000000000000-range/random alone and in front of LZMA2, LZMA2 with a size-of-properties other than 1 (present, or merely declared beyond what the header has left), each reserved block-flag bit, reserved stream-flag bits in header+footer / header only / footer only, a second stream, stream padding; and per file a doubled block whose second header is replaced by an equally long one using an unsupported filter or reserved flag bit, its free bits solved over GF(2) so that its CRC32 field equals the previous header's (forged twin header; dropped unless the reference decoder refuses it); one evaluation = one such file through xz_decompress, which must return Err; every variant is distinct (scenario hash) and non-trivial by construction; enumeration is complete per file for the listed feature table"
    }
    fn runs(&self, tier: Tier) -> u64 {
        match tier {
            Tier::Quick => 5_000,
            Tier::Thorough => 1_500_000,
        }
    }
    fn assumptions(&self) -> Vec<&'static str> {
        vec![
            "what was delivered to the sink before the refusal is irrelevant; only Ok is a violation",
            "payloads behind an unsupported filter are not transformed (a decoder must refuse before using them)",
        ]
    }
    fn exhaustive(&self) -> bool {
        false
    }
    fn run(&self, t: &mut Tape, ctx: &mut Ctx) -> Vec<Violation> {
        let plan = gen_xz_plan(t, 300);
        let vs = variants(t, &plan);
        let scripts: [Vec<u64>; 4] = [vec![], vec![1], vec![t.range(2, 9)], vec![t.range(1, 4), t.range(1, 40), 1]];
        let mut case_no = t.below(4) as usize;
        for (p, locus, note) in vs {
            let built = build_xz(&p);
            let mut sc = Scenario::new("c18");
            case_no += 1;
            if !scripts[case_no % 4].is_empty() {
                sc.set_l("src_script", scripts[case_no % 4].clone());
            }
            sc.set_b("input", built.bytes);
            sc.note = format!("{} | {}", locus, note);
            let key: &'static str = match locus.split('=').next().unwrap_or("") {
                "check_id" => "fault.fired.unsupported_check_id",
                "filter_alone" => "fault.fired.unsupported_filter_alone",
                "filter_before_lzma2" => "fault.fired.unsupported_filter_before_lzma2",
                "filter_after_lzma2" => "fault.fired.unsupported_filter_after_lzma2",
                "lzma2_props_size" => "fault.fired.lzma2_properties_of_another_size",
                "reserved_block_flag" => "fault.fired.reserved_block_flag",
                "reserved_stream_flag" => "fault.fired.reserved_stream_flag",
                "second_stream" => "fault.fired.second_stream",
                _ => "fault.fired.stream_padding",
            };
            ctx.stats.hit(key);
            let r = exec_one(&sc, ctx);
            if !r.is_empty() {
                return r;
            }
            // the refusal of trailing data must not depend on the end-of-file probe
            // succeeding: the same file through a one-byte-per-refill reader whose
            // refill right after the first stream's footer fails once
            if !p.trailing.is_empty() {
                let first_len = sc.b("input").len() - p.trailing.len();
                for kind in [crate::env::FK_INTERRUPTED, crate::env::FK_OTHER] {
                    let mut s2 = sc.clone();
                    s2.set_l("src_script", vec![1]);
                    s2.set_l("src_faults", vec![first_len as u64 + 1, kind]);
                    s2.note = format!("{} ; reader refills one byte at a time and fails once (kind {}) on the refill after the first stream", sc.note, crate::env::fk_name(kind));
                    ctx.stats.hit("fault.fired.source_error_at_the_end_of_file_probe");
                    let r = exec_one(&s2, ctx);
                    if !r.is_empty() {
                        return r;
                    }
                }
            }
        }
        for (bytes, _locus, note) in forged_twins(t, &plan) {
            let mut sc = Scenario::new("c18");
            case_no += 1;
            if !scripts[case_no % 4].is_empty() {
                sc.set_l("src_script", scripts[case_no % 4].clone());
            }
            sc.set_b("input", bytes);
            sc.note = format!("forged_twin_header | {}", note);
            ctx.stats.hit("fault.fired.unsupported_header_with_the_previous_headers_crc32");
            let r = exec_one(&sc, ctx);
            if !r.is_empty() {
                return r;
            }
        }
        Vec::new()
    }
    fn replay(&self, sc: &Scenario, ctx: &mut Ctx) -> Vec<Violation> {
        exec_one(sc, ctx)
    }
}
