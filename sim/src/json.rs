//! Minimal JSON value, writer and parser (no dependency available offline
//! without regenerating the lock file, and the formats here are tiny).

#[derive(Clone, Debug, PartialEq)]
pub enum Json {
    Null,
    Bool(bool),
    Int(i128),
    Float(f64),
    Str(String),
    Arr(Vec<Json>),
    Obj(Vec<(String, Json)>),
}

impl Json {
    pub fn obj() -> Json {
        Json::Obj(Vec::new())
    }
    pub fn set(&mut self, k: &str, v: Json) -> &mut Json {
        if let Json::Obj(items) = self {
            for it in items.iter_mut() {
                if it.0 == k {
                    it.1 = v;
                    return self;
                }
            }
            items.push((k.to_string(), v));
        }
        self
    }
    pub fn with(mut self, k: &str, v: Json) -> Json {
        self.set(k, v);
        self
    }
    pub fn get(&self, k: &str) -> Option<&Json> {
        if let Json::Obj(items) = self {
            for it in items {
                if it.0 == k {
                    return Some(&it.1);
                }
            }
        }
        None
    }
    pub fn as_str(&self) -> Option<&str> {
        if let Json::Str(s) = self {
            Some(s)
        } else {
            None
        }
    }
    pub fn as_i128(&self) -> Option<i128> {
        match self {
            Json::Int(i) => Some(*i),
            Json::Float(f) => Some(*f as i128),
            _ => None,
        }
    }
    pub fn as_u64(&self) -> Option<u64> {
        self.as_i128().map(|x| x as u64)
    }
    pub fn as_arr(&self) -> Option<&Vec<Json>> {
        if let Json::Arr(a) = self {
            Some(a)
        } else {
            None
        }
    }
    pub fn as_obj(&self) -> Option<&Vec<(String, Json)>> {
        if let Json::Obj(a) = self {
            Some(a)
        } else {
            None
        }
    }
    pub fn str(s: &str) -> Json {
        Json::Str(s.to_string())
    }
    pub fn int<T: Into<i128>>(v: T) -> Json {
        Json::Int(v.into())
    }
    pub fn uints(v: &[u64]) -> Json {
        Json::Arr(v.iter().map(|x| Json::Int(*x as i128)).collect())
    }

    pub fn to_string(&self) -> String {
        let mut s = String::new();
        self.write(&mut s, 0, false);
        s
    }
    pub fn to_pretty(&self) -> String {
        let mut s = String::new();
        self.write(&mut s, 0, true);
        s.push('\n');
        s
    }

    fn write(&self, out: &mut String, ind: usize, pretty: bool) {
        match self {
            Json::Null => out.push_str("null"),
            Json::Bool(b) => out.push_str(if *b { "true" } else { "false" }),
            Json::Int(i) => out.push_str(&i.to_string()),
            Json::Float(f) => {
                if f.is_finite() {
                    let s = format!("{}", f);
                    out.push_str(&s);
                    if !s.contains('.') && !s.contains('e') {
                        out.push_str(".0");
                    }
                } else {
                    out.push_str("null")
                }
            }
            Json::Str(s) => write_str(out, s),
            Json::Arr(a) => {
                // arrays of scalars stay on one line
                let scalar = a
                    .iter()
                    .all(|x| !matches!(x, Json::Arr(_) | Json::Obj(_)));
                out.push('[');
                for (i, x) in a.iter().enumerate() {
                    if i > 0 {
                        out.push(',');
                        if pretty && scalar {
                            out.push(' ');
                        }
                    }
                    if pretty && !scalar {
                        out.push('\n');
                        push_indent(out, ind + 1);
                    }
                    x.write(out, ind + 1, pretty);
                }
                if pretty && !scalar && !a.is_empty() {
                    out.push('\n');
                    push_indent(out, ind);
                }
                out.push(']');
            }
            Json::Obj(items) => {
                out.push('{');
                for (i, (k, v)) in items.iter().enumerate() {
                    if i > 0 {
                        out.push(',');
                    }
                    if pretty {
                        out.push('\n');
                        push_indent(out, ind + 1);
                    }
                    write_str(out, k);
                    out.push(':');
                    if pretty {
                        out.push(' ');
                    }
                    v.write(out, ind + 1, pretty);
                }
                if pretty && !items.is_empty() {
                    out.push('\n');
                    push_indent(out, ind);
                }
                out.push('}');
            }
        }
    }

    pub fn parse(s: &str) -> Result<Json, String> {
        let mut p = Parser {
            b: s.as_bytes(),
            i: 0,
        };
        p.ws();
        let v = p.value()?;
        p.ws();
        if p.i != p.b.len() {
            return Err(format!("trailing data at byte {}", p.i));
        }
        Ok(v)
    }
}

fn push_indent(out: &mut String, n: usize) {
    for _ in 0..n {
        out.push(' ');
    }
}

fn write_str(out: &mut String, s: &str) {
    out.push('"');
    for c in s.chars() {
        match c {
            '"' => out.push_str("\\\""),
            '\\' => out.push_str("\\\\"),
            '\n' => out.push_str("\\n"),
            '\r' => out.push_str("\\r"),
            '\t' => out.push_str("\\t"),
            c if (c as u32) < 0x20 => out.push_str(&format!("\\u{:04x}", c as u32)),
            c => out.push(c),
        }
    }
    out.push('"');
}

struct Parser<'a> {
    b: &'a [u8],
    i: usize,
}

impl<'a> Parser<'a> {
    fn ws(&mut self) {
        while self.i < self.b.len() && matches!(self.b[self.i], b' ' | b'\n' | b'\r' | b'\t') {
            self.i += 1;
        }
    }
    fn value(&mut self) -> Result<Json, String> {
        if self.i >= self.b.len() {
            return Err("unexpected end".into());
        }
        match self.b[self.i] {
            b'{' => {
                self.i += 1;
                let mut items = Vec::new();
                self.ws();
                if self.peek() == Some(b'}') {
                    self.i += 1;
                    return Ok(Json::Obj(items));
                }
                loop {
                    self.ws();
                    let k = match self.value()? {
                        Json::Str(s) => s,
                        _ => return Err("object key must be a string".into()),
                    };
                    self.ws();
                    if self.peek() != Some(b':') {
                        return Err(format!("expected ':' at {}", self.i));
                    }
                    self.i += 1;
                    self.ws();
                    let v = self.value()?;
                    items.push((k, v));
                    self.ws();
                    match self.peek() {
                        Some(b',') => self.i += 1,
                        Some(b'}') => {
                            self.i += 1;
                            return Ok(Json::Obj(items));
                        }
                        _ => return Err(format!("expected ',' or '}}' at {}", self.i)),
                    }
                }
            }
            b'[' => {
                self.i += 1;
                let mut items = Vec::new();
                self.ws();
                if self.peek() == Some(b']') {
                    self.i += 1;
                    return Ok(Json::Arr(items));
                }
                loop {
                    self.ws();
                    items.push(self.value()?);
                    self.ws();
                    match self.peek() {
                        Some(b',') => self.i += 1,
                        Some(b']') => {
                            self.i += 1;
                            return Ok(Json::Arr(items));
                        }
                        _ => return Err(format!("expected ',' or ']' at {}", self.i)),
                    }
                }
            }
            b'"' => {
                self.i += 1;
                let mut s = String::new();
                loop {
                    if self.i >= self.b.len() {
                        return Err("unterminated string".into());
                    }
                    let c = self.b[self.i];
                    self.i += 1;
                    match c {
                        b'"' => return Ok(Json::Str(s)),
                        b'\\' => {
                            let e = *self.b.get(self.i).ok_or("bad escape")?;
                            self.i += 1;
                            match e {
                                b'n' => s.push('\n'),
                                b'r' => s.push('\r'),
                                b't' => s.push('\t'),
                                b'b' => s.push('\u{8}'),
                                b'f' => s.push('\u{c}'),
                                b'u' => {
                                    let h = std::str::from_utf8(
                                        self.b.get(self.i..self.i + 4).ok_or("bad \\u")?,
                                    )
                                    .map_err(|_| "bad \\u")?;
                                    let cp = u32::from_str_radix(h, 16).map_err(|_| "bad \\u")?;
                                    self.i += 4;
                                    s.push(char::from_u32(cp).unwrap_or('?'));
                                }
                                other => s.push(other as char),
                            }
                        }
                        _ => {
                            // copy raw UTF-8 byte sequence
                            let start = self.i - 1;
                            let mut end = self.i;
                            while end < self.b.len() && (self.b[end] & 0xC0) == 0x80 {
                                end += 1;
                            }
                            s.push_str(
                                std::str::from_utf8(&self.b[start..end]).map_err(|_| "bad utf8")?,
                            );
                            self.i = end;
                        }
                    }
                }
            }
            b't' if self.b[self.i..].starts_with(b"true") => {
                self.i += 4;
                Ok(Json::Bool(true))
            }
            b'f' if self.b[self.i..].starts_with(b"false") => {
                self.i += 5;
                Ok(Json::Bool(false))
            }
            b'n' if self.b[self.i..].starts_with(b"null") => {
                self.i += 4;
                Ok(Json::Null)
            }
            _ => {
                let start = self.i;
                let mut is_float = false;
                while self.i < self.b.len() {
                    match self.b[self.i] {
                        b'0'..=b'9' | b'-' | b'+' => self.i += 1,
                        b'.' | b'e' | b'E' => {
                            is_float = true;
                            self.i += 1
                        }
                        _ => break,
                    }
                }
                let t = std::str::from_utf8(&self.b[start..self.i]).map_err(|_| "bad number")?;
                if t.is_empty() {
                    return Err(format!("unexpected byte at {}", start));
                }
                if is_float {
                    t.parse::<f64>()
                        .map(Json::Float)
                        .map_err(|e| format!("bad number {}: {}", t, e))
                } else {
                    t.parse::<i128>()
                        .map(Json::Int)
                        .map_err(|e| format!("bad number {}: {}", t, e))
                }
            }
        }
    }
    fn peek(&self) -> Option<u8> {
        self.b.get(self.i).copied()
    }
}

pub fn hex(b: &[u8]) -> String {
    const H: &[u8; 16] = b"0123456789abcdef";
    let mut s = String::with_capacity(b.len() * 2);
    for x in b {
        s.push(H[(x >> 4) as usize] as char);
        s.push(H[(x & 15) as usize] as char);
    }
    s
}

pub fn unhex(s: &str) -> Result<Vec<u8>, String> {
    let b = s.as_bytes();
    if b.len() % 2 != 0 {
        return Err("odd hex length".into());
    }
    let v = |c: u8| -> Result<u8, String> {
        match c {
            b'0'..=b'9' => Ok(c - b'0'),
            b'a'..=b'f' => Ok(c - b'a' + 10),
            b'A'..=b'F' => Ok(c - b'A' + 10),
            _ => Err("bad hex digit".into()),
        }
    };
    let mut out = Vec::with_capacity(b.len() / 2);
    for p in b.chunks(2) {
        out.push((v(p[0])? << 4) | v(p[1])?);
    }
    Ok(out)
}
