//! Explicit, self-contained scenarios. A scenario holds concrete byte strings,
//! named integers and named integer lists (I/O scripts, operation histories,
//! fault plans). Execution and replay consume the scenario, never the seed.

use crate::json::{hex, unhex, Json};
use crate::prng::Hash64;

#[derive(Clone, Debug, Default)]
pub struct Scenario {
    pub kind: String,
    pub bytes: Vec<(String, Vec<u8>)>,
    pub ints: Vec<(String, u64)>,
    pub lists: Vec<(String, Vec<u64>)>,
    pub note: String,
}

impl Scenario {
    pub fn new(kind: &str) -> Scenario {
        Scenario {
            kind: kind.to_string(),
            ..Default::default()
        }
    }
    pub fn set_b(&mut self, k: &str, v: Vec<u8>) -> &mut Self {
        for it in self.bytes.iter_mut() {
            if it.0 == k {
                it.1 = v;
                return self;
            }
        }
        self.bytes.push((k.to_string(), v));
        self
    }
    pub fn set_i(&mut self, k: &str, v: u64) -> &mut Self {
        for it in self.ints.iter_mut() {
            if it.0 == k {
                it.1 = v;
                return self;
            }
        }
        self.ints.push((k.to_string(), v));
        self
    }
    pub fn set_l(&mut self, k: &str, v: Vec<u64>) -> &mut Self {
        for it in self.lists.iter_mut() {
            if it.0 == k {
                it.1 = v;
                return self;
            }
        }
        self.lists.push((k.to_string(), v));
        self
    }
    pub fn b(&self, k: &str) -> &[u8] {
        for it in &self.bytes {
            if it.0 == k {
                return &it.1;
            }
        }
        &[]
    }
    pub fn has_b(&self, k: &str) -> bool {
        self.bytes.iter().any(|x| x.0 == k)
    }
    pub fn i(&self, k: &str) -> u64 {
        for it in &self.ints {
            if it.0 == k {
                return it.1;
            }
        }
        0
    }
    pub fn has_i(&self, k: &str) -> bool {
        self.ints.iter().any(|x| x.0 == k)
    }
    pub fn opt_i(&self, k: &str) -> Option<u64> {
        self.ints.iter().find(|x| x.0 == k).map(|x| x.1)
    }
    pub fn l(&self, k: &str) -> &[u64] {
        for it in &self.lists {
            if it.0 == k {
                return &it.1;
            }
        }
        &[]
    }

    pub fn hash(&self) -> u64 {
        let mut h = Hash64::new();
        h.str(&self.kind);
        for (k, v) in &self.bytes {
            h.str(k);
            h.bytes(v);
        }
        for (k, v) in &self.ints {
            h.str(k);
            h.u(*v);
        }
        for (k, v) in &self.lists {
            h.str(k);
            h.u(v.len() as u64);
            for x in v {
                h.u(*x);
            }
        }
        h.get()
    }

    /// JSON form; byte strings longer than `max_bytes` are abbreviated when
    /// `abbreviate` is set (evidence samples only — replay files are complete).
    pub fn to_json(&self, abbreviate: bool) -> Json {
        let mut o = Json::obj();
        o.set("kind", Json::str(&self.kind));
        let mut b = Json::obj();
        for (k, v) in &self.bytes {
            if abbreviate && v.len() > 96 {
                b.set(
                    k,
                    Json::str(&format!(
                        "{}…({} bytes total)",
                        hex(&v[..96]),
                        v.len()
                    )),
                );
            } else {
                b.set(k, Json::str(&hex(v)));
            }
        }
        o.set("bytes_hex", b);
        let mut i = Json::obj();
        for (k, v) in &self.ints {
            i.set(k, Json::Int(*v as i128));
        }
        o.set("ints", i);
        let mut l = Json::obj();
        for (k, v) in &self.lists {
            if abbreviate && v.len() > 64 {
                let mut a: Vec<Json> = v[..64].iter().map(|x| Json::Int(*x as i128)).collect();
                a.push(Json::str(&format!("…({} entries total)", v.len())));
                l.set(k, Json::Arr(a));
            } else {
                l.set(k, Json::uints(v));
            }
        }
        o.set("lists", l);
        o.set("note", Json::str(&self.note));
        o
    }

    pub fn from_json(j: &Json) -> Result<Scenario, String> {
        let mut s = Scenario::new(
            j.get("kind")
                .and_then(|x| x.as_str())
                .ok_or("scenario.kind missing")?,
        );
        if let Some(b) = j.get("bytes_hex").and_then(|x| x.as_obj()) {
            for (k, v) in b {
                s.bytes
                    .push((k.clone(), unhex(v.as_str().ok_or("bytes_hex value")?)?));
            }
        }
        if let Some(b) = j.get("ints").and_then(|x| x.as_obj()) {
            for (k, v) in b {
                s.ints.push((k.clone(), v.as_u64().ok_or("ints value")?));
            }
        }
        if let Some(b) = j.get("lists").and_then(|x| x.as_obj()) {
            for (k, v) in b {
                let mut out = Vec::new();
                for x in v.as_arr().ok_or("lists value")? {
                    out.push(x.as_u64().ok_or("list entry")?);
                }
                s.lists.push((k.clone(), out));
            }
        }
        s.note = j
            .get("note")
            .and_then(|x| x.as_str())
            .unwrap_or("")
            .to_string();
        Ok(s)
    }
}

/// A property violation: `class` and `locus` form the signature used by the
/// shrinker ("same violation") and by the known-findings file.
#[derive(Clone, Debug)]
pub struct Violation {
    pub class: String,
    pub locus: String,
    pub detail: String,
    pub scenario: Scenario,
}

impl Violation {
    pub fn new(class: &str, locus: &str, detail: String, scenario: &Scenario) -> Violation {
        Violation {
            class: class.to_string(),
            locus: locus.to_string(),
            detail,
            scenario: scenario.clone(),
        }
    }
    pub fn to_json(&self) -> Json {
        Json::obj()
            .with("class", Json::str(&self.class))
            .with("locus", Json::str(&self.locus))
            .with("detail", Json::str(&self.detail))
    }
}
