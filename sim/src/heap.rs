//! Heap meter: wraps the real system allocator (allocations really happen) and
//! keeps thread-local live/peak counters of what is allocated and freed while
//! code under test runs (inside `env::guarded`, outside `heap::driver`). Each simulated run is confined to one
//! thread, so the numbers are deterministic.

use std::alloc::{GlobalAlloc, Layout, System};
use std::cell::Cell;
use std::sync::atomic::{AtomicUsize, Ordering};

/// A single request above this size is an allocation bomb: the real allocator
/// would fail and abort the whole process. Instead the requesting thread is
/// parked for good and the supervisor reports the run as a violation.
pub const TRAP_LIMIT: usize = 1 << 30;
pub static TRAP_SIZE: AtomicUsize = AtomicUsize::new(0);
pub static TRAP_WORKER: AtomicUsize = AtomicUsize::new(usize::MAX);
pub static TRAP_ACK: AtomicUsize = AtomicUsize::new(0);

fn trap(size: usize) -> ! {
    let w = WORKER.try_with(|w| w.get()).unwrap_or(usize::MAX);
    TRAP_WORKER.store(w, Ordering::SeqCst);
    TRAP_SIZE.store(size, Ordering::SeqCst);
    // the supervisor (check) or the main thread (replay) reports the run and
    // exits the process well within this time; if nobody is watching, give up
    for _ in 0..300 {
        std::thread::sleep(std::time::Duration::from_millis(100));
        if TRAP_ACK.load(Ordering::SeqCst) != 0 {
            // somebody is dealing with it: stay parked
            loop {
                std::thread::sleep(std::time::Duration::from_secs(3600));
            }
        }
    }
    std::process::abort();
}

pub fn set_worker(i: usize) {
    WORKER.with(|w| w.set(i));
}

/// The trap is armed only while code under test runs (between `enter_sut` and
/// `leave_sut`, which `env::guarded` brackets every call into lzma-rs with):
/// the harness's own big allocations (statistics of a long run) are not bombs.
pub fn enter_sut() -> bool {
    IN_SUT.with(|f| f.replace(true))
}
pub fn leave_sut(prev: bool) {
    IN_SUT.with(|f| f.set(prev));
}
#[inline]
fn armed() -> bool {
    IN_SUT.try_with(|f| f.get()).unwrap_or(false)
}

pub struct Meter;

thread_local! {
    static LIVE: Cell<isize> = const { Cell::new(0) };
    static PEAK: Cell<isize> = const { Cell::new(0) };
    static BIGGEST: Cell<usize> = const { Cell::new(0) };
    static WORKER: Cell<usize> = const { Cell::new(usize::MAX) };
    static IN_SUT: Cell<bool> = const { Cell::new(false) };
}

/// Run harness bookkeeping (event records, error strings) without it being
/// attributed to the code under test.
pub fn driver<T, F: FnOnce() -> T>(f: F) -> T {
    let prev = IN_SUT.with(|x| x.replace(false));
    let r = f();
    IN_SUT.with(|x| x.set(prev));
    r
}

#[inline]
fn add(n: usize) {
    if !armed() {
        return;
    }
    let _ = LIVE.try_with(|l| {
        let v = l.get() + n as isize;
        l.set(v);
        let _ = PEAK.try_with(|p| {
            if v > p.get() {
                p.set(v)
            }
        });
    });
    let _ = BIGGEST.try_with(|b| {
        if n > b.get() {
            b.set(n)
        }
    });
}

#[inline]
fn sub(n: usize) {
    if !armed() {
        return;
    }
    let _ = LIVE.try_with(|l| l.set(l.get() - n as isize));
}

unsafe impl GlobalAlloc for Meter {
    unsafe fn alloc(&self, layout: Layout) -> *mut u8 {
        if layout.size() > TRAP_LIMIT && armed() {
            trap(layout.size());
        }
        let p = System.alloc(layout);
        if !p.is_null() {
            add(layout.size());
        }
        p
    }
    unsafe fn dealloc(&self, ptr: *mut u8, layout: Layout) {
        System.dealloc(ptr, layout);
        sub(layout.size());
    }
    unsafe fn alloc_zeroed(&self, layout: Layout) -> *mut u8 {
        if layout.size() > TRAP_LIMIT && armed() {
            trap(layout.size());
        }
        let p = System.alloc_zeroed(layout);
        if !p.is_null() {
            add(layout.size());
        }
        p
    }
    unsafe fn realloc(&self, ptr: *mut u8, layout: Layout, new_size: usize) -> *mut u8 {
        if new_size > TRAP_LIMIT && armed() {
            trap(new_size);
        }
        let p = System.realloc(ptr, layout, new_size);
        if !p.is_null() {
            if new_size >= layout.size() {
                add(new_size - layout.size());
            } else {
                sub(layout.size() - new_size);
            }
        }
        p
    }
}

/// Start a measurement window on this thread: peak := live, biggest := 0.
/// Returns the live byte count at the start.
pub fn begin() -> isize {
    let live = LIVE.with(|l| l.get());
    PEAK.with(|p| p.set(live));
    BIGGEST.with(|b| b.set(0));
    live
}

/// Peak growth above the value returned by `begin`, and the largest single
/// allocation request seen in the window.
pub fn end(base: isize) -> (usize, usize) {
    let peak = PEAK.with(|p| p.get());
    let big = BIGGEST.with(|b| b.get());
    ((peak - base).max(0) as usize, big)
}
