//! Heap meter: wraps the real system allocator (allocations really happen) and
//! keeps thread-local live/peak counters. Each simulated run is confined to one
//! thread, so the numbers are deterministic.

use std::alloc::{GlobalAlloc, Layout, System};
use std::cell::Cell;

pub struct Meter;

thread_local! {
    static LIVE: Cell<isize> = const { Cell::new(0) };
    static PEAK: Cell<isize> = const { Cell::new(0) };
    static BIGGEST: Cell<usize> = const { Cell::new(0) };
}

#[inline]
fn add(n: usize) {
    let _ = LIVE.try_with(|l| {
        let v = l.get() + n as isize;
        l.set(v);
        let _ = PEAK.try_with(|p| {
            if v > p.get() {
                p.set(v)
            }
        });
    });
    let _ = BIGGEST.try_with(|b| {
        if n > b.get() {
            b.set(n)
        }
    });
}

#[inline]
fn sub(n: usize) {
    let _ = LIVE.try_with(|l| l.set(l.get() - n as isize));
}

unsafe impl GlobalAlloc for Meter {
    unsafe fn alloc(&self, layout: Layout) -> *mut u8 {
        let p = System.alloc(layout);
        if !p.is_null() {
            add(layout.size());
        }
        p
    }
    unsafe fn dealloc(&self, ptr: *mut u8, layout: Layout) {
        System.dealloc(ptr, layout);
        sub(layout.size());
    }
    unsafe fn alloc_zeroed(&self, layout: Layout) -> *mut u8 {
        let p = System.alloc_zeroed(layout);
        if !p.is_null() {
            add(layout.size());
        }
        p
    }
    unsafe fn realloc(&self, ptr: *mut u8, layout: Layout, new_size: usize) -> *mut u8 {
        let p = System.realloc(ptr, layout, new_size);
        if !p.is_null() {
            if new_size >= layout.size() {
                add(new_size - layout.size());
            } else {
                sub(layout.size() - new_size);
            }
        }
        p
    }
}

/// Start a measurement window on this thread: peak := live, biggest := 0.
/// Returns the live byte count at the start.
pub fn begin() -> isize {
    let live = LIVE.with(|l| l.get());
    PEAK.with(|p| p.set(live));
    BIGGEST.with(|b| b.set(0));
    live
}

/// Peak growth above the value returned by `begin`, and the largest single
/// allocation request seen in the window.
pub fn end(base: isize) -> (usize, usize) {
    let peak = PEAK.with(|p| p.get());
    let big = BIGGEST.with(|b| b.get());
    ((peak - base).max(0) as usize, big)
}
