//! Drivers: call the real lzma-rs entry points through the simulated
//! environment, under catch_unwind.

use crate::env::*;
use crate::scenario::Scenario;
use lzma_rs::decompress::{Options, UnpackedSize};
use std::io::{BufRead, BufReader, Cursor, Write};

#[derive(Clone, Debug, PartialEq, Eq)]
pub enum Verdict {
    Ok,
    Err(String),
    Panic(String),
}

impl Verdict {
    pub fn is_ok(&self) -> bool {
        matches!(self, Verdict::Ok)
    }
    pub fn is_err(&self) -> bool {
        matches!(self, Verdict::Err(_))
    }
    pub fn is_panic(&self) -> bool {
        matches!(self, Verdict::Panic(_))
    }
    pub fn short(&self) -> String {
        match self {
            Verdict::Ok => "Ok".into(),
            Verdict::Err(e) => format!("Err({})", e),
            Verdict::Panic(e) => format!("PANIC({})", e),
        }
    }
    /// Ok / Err / Panic without the message
    pub fn kind(&self) -> &'static str {
        match self {
            Verdict::Ok => "Ok",
            Verdict::Err(_) => "Err",
            Verdict::Panic(_) => "Panic",
        }
    }
}

/// "file only" part of a panic description, stable across line shifts
pub fn panic_locus(msg: &str) -> String {
    let loc = msg.rsplit(" @ ").next().unwrap_or("?");
    let file = loc.split(':').next().unwrap_or("?");
    let what = if msg.contains("overflow") {
        "arithmetic overflow"
    } else if msg.contains("divisor of zero") || msg.contains("divide by zero") {
        "division by zero"
    } else if msg.contains("out of bounds") || msg.contains("out of range") {
        "index out of bounds"
    } else if msg.contains("capacity overflow") || msg.contains("alloc") {
        "allocation"
    } else if msg.contains("assertion") {
        "assertion"
    } else {
        "panic"
    };
    format!("{} in {}", what, file)
}

// entry points
pub const EP_LZMA: u64 = 0;
pub const EP_LZMA2: u64 = 1;
pub const EP_XZ: u64 = 2;
pub const EP_STREAM: u64 = 3;
pub const EP_RAW_LZMA: u64 = 4;
pub const EP_RAW_LZMA2: u64 = 5;
pub const EP_C_LZMA: u64 = 6;
pub const EP_C_LZMA2: u64 = 7;
pub const EP_C_XZ: u64 = 8;

pub fn ep_name(ep: u64) -> &'static str {
    match ep {
        EP_LZMA => "lzma_decompress_with_options",
        EP_LZMA2 => "lzma2_decompress",
        EP_XZ => "xz_decompress",
        EP_STREAM => "decompress::Stream",
        EP_RAW_LZMA => "raw::LzmaDecoder",
        EP_RAW_LZMA2 => "raw::Lzma2Decoder",
        EP_C_LZMA => "lzma_compress_with_options",
        EP_C_LZMA2 => "lzma2_compress",
        EP_C_XZ => "xz_compress",
        _ => "?",
    }
}

// reader kinds
pub const RK_SIM: u64 = 0;
pub const RK_SLICE: u64 = 1;
pub const RK_CURSOR: u64 = 2;
pub const RK_BUFREADER: u64 = 3;
/// std::io::Chain of two slices, split at `bufcap % (len+1)`
pub const RK_CHAIN: u64 = 4;
/// SimSource wrapped in std::io::Take with limit = `bufcap` (callers pass the limit there)
pub const RK_TAKE: u64 = 5;
/// SimSource whose every read/fill_buf call is a fault point (also while bytes are exposed)
pub const RK_SIM_ANYCALL: u64 = 6;

#[derive(Clone, Copy, Debug, Default)]
pub struct OptSpec {
    /// 0 ReadFromHeader, 1 ReadHeaderButUseProvided, 2 UseProvided
    pub mode: u64,
    pub provided: Option<u64>,
    pub memlimit: Option<usize>,
    pub allow_incomplete: bool,
    /// use the convenience entry points (lzma_decompress, Stream::new) where the
    /// options are the defaults
    pub wrapper: bool,
}

impl OptSpec {
    pub fn to_options(&self) -> Options {
        Options {
            unpacked_size: match self.mode {
                0 => UnpackedSize::ReadFromHeader,
                1 => UnpackedSize::ReadHeaderButUseProvided(self.provided),
                _ => UnpackedSize::UseProvided(self.provided),
            },
            memlimit: self.memlimit,
            allow_incomplete: self.allow_incomplete,
        }
    }
    pub fn store(&self, sc: &mut Scenario) {
        sc.set_i("opt_mode", self.mode);
        if let Some(p) = self.provided {
            sc.set_i("opt_provided", p);
        }
        if let Some(m) = self.memlimit {
            sc.set_i("opt_memlimit", m as u64);
        }
        if self.allow_incomplete {
            sc.set_i("opt_allow_incomplete", 1);
        }
        if self.wrapper {
            sc.set_i("opt_wrapper", 1);
        }
    }
    pub fn load(sc: &Scenario) -> OptSpec {
        OptSpec {
            mode: sc.i("opt_mode"),
            provided: sc.opt_i("opt_provided"),
            memlimit: sc.opt_i("opt_memlimit").map(|x| x as usize),
            allow_incomplete: sc.i("opt_allow_incomplete") != 0,
            wrapper: sc.i("opt_wrapper") != 0,
        }
    }
    pub fn header_len(&self) -> usize {
        if self.mode == 2 {
            5
        } else {
            13
        }
    }
}

/// Parameters of the raw LZMA decoder (no header in the input).
#[derive(Clone, Copy, Debug, Default)]
pub struct RawSpec {
    pub lc: u32,
    pub lp: u32,
    pub pb: u32,
    pub dict: u32,
    pub size: Option<u64>,
    /// Some(n): the decoder is constructed for size Some(n) and then told the real
    /// size through reset(Some(size)) before the decode (a reused decoder object);
    /// odd n: a first decompress call (empty input, fails at once) precedes the reset
    pub pre: Option<u64>,
}

impl RawSpec {
    pub fn store(&self, sc: &mut Scenario) {
        sc.set_i("raw_lc", self.lc as u64);
        sc.set_i("raw_lp", self.lp as u64);
        sc.set_i("raw_pb", self.pb as u64);
        sc.set_i("raw_dict", self.dict as u64);
        if let Some(s) = self.size {
            sc.set_i("raw_size", s);
        }
        if let Some(s) = self.pre {
            sc.set_i("raw_pre", s);
        }
    }
    pub fn load(sc: &Scenario) -> RawSpec {
        RawSpec {
            lc: sc.i("raw_lc") as u32,
            lp: sc.i("raw_lp") as u32,
            pb: sc.i("raw_pb") as u32,
            dict: sc.i("raw_dict") as u32,
            size: sc.opt_i("raw_size"),
            pre: sc.opt_i("raw_pre"),
        }
    }
}

fn errstr<E: std::fmt::Display>(e: E) -> String {
    let s = e.to_string();
    if s.len() > 160 {
        s[..160].to_string()
    } else {
        s
    }
}

/// One call of a one-shot decoder on an arbitrary BufRead.
pub fn call_decoder<R: BufRead, W: Write>(
    ep: u64,
    r: &mut R,
    w: &mut W,
    opts: &OptSpec,
    raw: &RawSpec,
) -> Verdict {
    let res = guarded(|| -> Result<(), String> {
        match ep {
            EP_LZMA => {
                if opts.wrapper && opts.mode == 0 && opts.memlimit.is_none() && !opts.allow_incomplete {
                    // the convenience wrapper with default options (same thing by contract)
                    lzma_rs::lzma_decompress(r, w).map_err(errstr)
                } else {
                    lzma_rs::lzma_decompress_with_options(r, w, &opts.to_options()).map_err(errstr)
                }
            }
            EP_LZMA2 => lzma_rs::lzma2_decompress(r, w).map_err(errstr),
            EP_XZ => lzma_rs::xz_decompress(r, w).map_err(errstr),
            EP_RAW_LZMA => {
                use lzma_rs::decompress::raw::{LzmaDecoder, LzmaParams, LzmaProperties};
                let params = LzmaParams::new(
                    LzmaProperties {
                        lc: raw.lc,
                        lp: raw.lp,
                        pb: raw.pb,
                    },
                    raw.dict,
                    if raw.pre.is_some() { raw.pre } else { raw.size },
                );
                let mut d = LzmaDecoder::new(params, opts.memlimit).map_err(errstr)?;
                if let Some(pre) = raw.pre {
                    if pre & 1 == 1 {
                        // the object has also been used before: a decode of no input at
                        // all (it fails at once), into a sink of its own
                        let mut none: &[u8] = &[];
                        let _ = d.decompress(&mut none, &mut std::io::sink());
                    }
                    d.reset(Some(raw.size));
                }
                let res = d.decompress(r, w).map_err(errstr);
                // Debug output is exercised (must not panic) but not metered as decoding
                // memory; only for small literal tables (it prints every probability)
                if raw.lc + raw.lp <= 2 {
                    crate::heap::driver(|| drop(format!("{:?}", d)));
                }
                res
            }
            EP_RAW_LZMA2 => {
                use lzma_rs::decompress::raw::Lzma2Decoder;
                let mut d = if raw.dict & 1 == 1 { Lzma2Decoder::default() } else { Lzma2Decoder::new() };
                // `pre`: the decoder object has a history - an earlier decompress call on it
                // failed half-way (bytes decoded since its last dictionary reset) and no
                // reset() followed. A well-formed LZMA2 stream re-initialises everything
                // it uses, so the decode that follows owes nothing to that history.
                if let Some(h) = raw.pre {
                    let prior: &[u8] = match h % 3 {
                        0 => &[0x01, 0x00, 0x04, b'a', b'b', b'c', b'd', b'e', 0x02, 0x00, 0x09, b'x'],
                        1 => &[0x01, 0x00, 0x02, b'a', b'b', b'c', 0x02, 0x00, 0x01, b'd', b'e', 0x7F],
                        _ => &[0x01, 0x00, 0x03, b'a', b'b', b'c', b'd', 0x00],
                    };
                    let mut pr: &[u8] = prior;
                    if h % 3 == 2 {
                        // complete input, the sink fails (write when h & 4, else flush)
                        let wf = if h & 4 != 0 { crate::env::Faults::one(1, crate::env::FK_OTHER) } else { crate::env::Faults::none() };
                        let (mut bad, _h) = crate::env::SimSink::new(None, &[], wf, crate::env::Faults::one(1, crate::env::FK_OTHER));
                        let _ = d.decompress(&mut pr, &mut bad);
                    } else {
                        let _ = d.decompress(&mut pr, &mut std::io::sink());
                    }
                }
                let res = d.decompress(r, w).map_err(errstr);
                // Debug output is exercised (must not panic) but not metered as decoding
                // memory; only for small literal tables (it prints every probability)
                if raw.lc + raw.lp <= 2 {
                    crate::heap::driver(|| drop(format!("{:?}", d)));
                }
                res
            }
            _ => Err("driver: not a decoder".into()),
        }
    });
    match res {
        Ok(Ok(())) => Verdict::Ok,
        Ok(Err(e)) => Verdict::Err(e),
        Err(p) => Verdict::Panic(p),
    }
}

pub fn call_encoder<R: BufRead, W: Write>(ep: u64, r: &mut R, w: &mut W, enc_mode: u64, enc_size: u64) -> Verdict {
    use lzma_rs::compress;
    let res = guarded(|| -> Result<(), String> {
        match ep {
            EP_C_LZMA => {
                let o = compress::Options {
                    unpacked_size: match enc_mode {
                        0 => compress::UnpackedSize::WriteToHeader(None),
                        1 => compress::UnpackedSize::WriteToHeader(Some(enc_size)),
                        _ => compress::UnpackedSize::SkipWritingToHeader,
                    },
                };
                if enc_mode == 0 && enc_size & 1 == 1 {
                    lzma_rs::lzma_compress(r, w).map_err(errstr)
                } else {
                    lzma_rs::lzma_compress_with_options(r, w, &o).map_err(errstr)
                }
            }
            EP_C_LZMA2 => lzma_rs::lzma2_compress(r, w).map_err(errstr),
            EP_C_XZ => lzma_rs::xz_compress(r, w).map_err(errstr),
            _ => Err("driver: not an encoder".into()),
        }
    });
    match res {
        Ok(Ok(())) => Verdict::Ok,
        Ok(Err(e)) => Verdict::Err(e),
        Err(p) => Verdict::Panic(p),
    }
}

#[derive(Clone, Debug, Default)]
pub struct ReadOutcome {
    /// bytes of the input the decoder consumed (reader position afterwards)
    pub consumed: usize,
    pub calls: u64,
    pub fired_hard: u32,
    pub fired_retryable: u32,
    pub log: u64,
}

/// Run a decoder (or encoder: ep >= EP_C_LZMA) over `data` presented through
/// the chosen reader kind.
#[allow(clippy::too_many_arguments)]
pub fn run_with_reader<W: Write>(
    ep: u64,
    data: &[u8],
    rk: u64,
    src_script: &[u64],
    src_faults: Faults,
    bufcap: usize,
    w: &mut W,
    opts: &OptSpec,
    raw: &RawSpec,
    enc_mode: u64,
    enc_size: u64,
) -> (Verdict, ReadOutcome) {
    let is_enc = ep >= EP_C_LZMA;
    macro_rules! go {
        ($r:expr) => {
            if is_enc {
                call_encoder(ep, $r, w, enc_mode, enc_size)
            } else {
                call_decoder(ep, $r, w, opts, raw)
            }
        };
    }
    match rk {
        RK_SLICE => {
            let mut r: &[u8] = data;
            let v = go!(&mut r);
            (
                v,
                ReadOutcome {
                    consumed: data.len() - r.len(),
                    ..Default::default()
                },
            )
        }
        RK_CURSOR => {
            let mut r = Cursor::new(data);
            let v = go!(&mut r);
            (
                v,
                ReadOutcome {
                    consumed: r.position() as usize,
                    ..Default::default()
                },
            )
        }
        RK_CHAIN => {
            use std::io::Read;
            let cut = bufcap % (data.len() + 1);
            let (a, b) = data.split_at(cut);
            let mut r = a.chain(b);
            let v = go!(&mut r);
            let (ra, rb) = r.into_inner();
            (
                v,
                ReadOutcome {
                    consumed: data.len() - ra.len() - rb.len(),
                    calls: 2,
                    ..Default::default()
                },
            )
        }
        RK_TAKE => {
            use std::io::Read;
            let src = SimSource::new(data, src_script, src_faults);
            let mut r = src.take(bufcap as u64);
            let v = go!(&mut r);
            let rep = r.get_ref().report();
            (
                v,
                ReadOutcome {
                    consumed: rep.consumed,
                    calls: rep.calls,
                    fired_hard: rep.fired_hard,
                    fired_retryable: rep.fired_retryable,
                    log: rep.log,
                },
            )
        }
        RK_BUFREADER => {
            let inner = ShortReader::new(data, src_script, src_faults);
            let mut r = BufReader::with_capacity(bufcap.max(1), inner);
            let v = go!(&mut r);
            let buffered = r.buffer().len();
            let inner = r.get_ref();
            (
                v,
                ReadOutcome {
                    consumed: inner.pos - buffered,
                    calls: inner.calls,
                    fired_hard: inner.fired_hard,
                    fired_retryable: inner.fired_retryable,
                    log: inner.calls,
                },
            )
        }
        _ => {
            let mut r = SimSource::new(data, src_script, src_faults);
            r.any_call = rk == RK_SIM_ANYCALL;
            let v = go!(&mut r);
            let rep = r.report();
            (
                v,
                ReadOutcome {
                    consumed: rep.consumed,
                    calls: rep.calls,
                    fired_hard: rep.fired_hard,
                    fired_retryable: rep.fired_retryable,
                    log: rep.log,
                },
            )
        }
    }
}

/// Plain one-shot decode from a slice into a Vec (the fault-free baseline).
pub fn simple_decode(ep: u64, data: &[u8], opts: &OptSpec, raw: &RawSpec) -> (Verdict, Vec<u8>, usize) {
    let mut out = Vec::new();
    let mut r: &[u8] = data;
    let v = call_decoder(ep, &mut r, &mut out, opts, raw);
    (v, out, data.len() - r.len())
}

// ------------------------------------------------------------------ Stream

pub const OP_WRITE: u64 = 0; // arg = bytes offered (0 = empty write)
pub const OP_FLUSH: u64 = 1;
pub const OP_PEEK: u64 = 2; // get_output
pub const OP_FINISH: u64 = 3;
pub const OP_WRITE_ALL: u64 = 4; // offer everything that is left, write_all style
pub const OP_WRITE_N: u64 = 5; // feed exactly the next arg bytes, write_all style
pub const OP_PEEK_MUT: u64 = 6; // get_output_mut
/// offer the next (arg & 0xFFFF_FFFF) bytes as three slices in ONE write_vectored call;
/// the first cut falls at (arg >> 32) eighths of them, the second halves the rest
pub const OP_WRITE_VEC: u64 = 8;
pub const OP_DEBUG: u64 = 7; // format!("{:?}", stream)

#[derive(Clone, Debug)]
pub struct StreamEvent {
    pub op: u64,
    pub offered: usize,
    /// Ok(n) consumed, or Err
    pub result: Result<usize, String>,
    /// bytes accepted by the sink after the call
    pub sink_len: usize,
    /// a hard sink fault fired during this call
    pub fault_fired: bool,
}

#[derive(Clone, Debug)]
pub struct StreamOutcome {
    pub events: Vec<StreamEvent>,
    /// verdict of `finish` (None if the history has no finish)
    pub finish: Option<Verdict>,
    /// input bytes reported consumed by write calls
    pub fed: usize,
    /// a non-empty write returned Ok(0)
    pub stalled: bool,
    pub first_write_err: Option<usize>,
    pub panicked: Option<String>,
    /// get_output() returned None at some point
    pub output_gone: bool,
}

/// Drive a `Stream` through an explicit history. `ops` is a flat list of
/// (op, arg) pairs. The driver behaves like a well-behaved `Write` user: it
/// advances by the count each `write` returns; OP_WRITE_ALL loops until the
/// rest is consumed or a write returns Ok(0) / Err. After the first write
/// error it keeps going if `continue_after_error` (C16), else stops feeding.
pub fn run_stream(
    data: &[u8],
    ops: &[u64],
    opts: &OptSpec,
    sink: SimSink,
    st: &SinkHandle,
    continue_after_error: bool,
) -> StreamOutcome {
    use lzma_rs::decompress::Stream;
    let mut out = StreamOutcome {
        events: Vec::new(),
        finish: None,
        fed: 0,
        stalled: false,
        first_write_err: None,
        panicked: None,
        output_gone: false,
    };
    let options = opts.to_options();
    let r = guarded(|| {
        let default_opts = opts.mode == 0 && opts.memlimit.is_none() && !opts.allow_incomplete;
        let mut stream = Some(if default_opts && opts.wrapper {
            Stream::new(sink)
        } else {
            Stream::new_with_options(&options, sink)
        });
        let mut pos = 0usize;
        let mut dead = false;
        for p in ops.chunks(2) {
            let (op, arg) = (p[0], *p.get(1).unwrap_or(&0));
            let fired_before = st.borrow().fired_hard;
            let s = match stream.as_mut() {
                Some(s) => s,
                None => break,
            };
            match op {
                OP_WRITE => {
                    if (dead || out.stalled) && !continue_after_error {
                        continue;
                    }
                    let n = (arg as usize).min(data.len() - pos);
                    let res = s.write(&data[pos..pos + n]);
                    let ev = match res {
                        Ok(k) => {
                            pos += k.min(n);
                            if k == 0 && n > 0 {
                                out.stalled = true;
                            }
                            Ok(k)
                        }
                        Err(e) => {
                            if out.first_write_err.is_none() {
                                out.first_write_err = Some(out.events.len());
                            }
                            dead = true;
                            Err(errstr(e))
                        }
                    };
                    crate::heap::driver(|| out.events.push(StreamEvent {
                        op,
                        offered: n,
                        result: ev,
                        sink_len: st.borrow().accepted.len(),
                            fault_fired: st.borrow().fired_hard > fired_before,
                    }));
                }
                OP_WRITE_VEC => {
                    if (dead || out.stalled) && !continue_after_error {
                        continue;
                    }
                    let n = ((arg & 0xFFFF_FFFF) as usize).min(data.len() - pos);
                    let c1 = (n * ((arg >> 32) as usize).clamp(1, 7) / 8).min(n);
                    let c2 = c1 + (n - c1) / 2;
                    let piece = &data[pos..pos + n];
                    let bufs = [std::io::IoSlice::new(&piece[..c1]), std::io::IoSlice::new(&piece[c1..c2]), std::io::IoSlice::new(&piece[c2..])];
                    let res = s.write_vectored(&bufs);
                    let ev = match res {
                        Ok(k) => {
                            pos += k.min(n);
                            if k == 0 && n > 0 {
                                out.stalled = true;
                            }
                            Ok(k)
                        }
                        Err(e) => {
                            if out.first_write_err.is_none() {
                                out.first_write_err = Some(out.events.len());
                            }
                            dead = true;
                            Err(errstr(e))
                        }
                    };
                    crate::heap::driver(|| out.events.push(StreamEvent {
                        op: OP_WRITE,
                        offered: n,
                        result: ev,
                        sink_len: st.borrow().accepted.len(),
                        fault_fired: st.borrow().fired_hard > fired_before,
                    }));
                }
                OP_WRITE_ALL | OP_WRITE_N => {
                    let end = if op == OP_WRITE_ALL {
                        data.len()
                    } else {
                        (pos + arg as usize).min(data.len())
                    };
                    let mut guard = 0;
                    while pos < end && !((dead || out.stalled) && !continue_after_error) {
                        guard += 1;
                        if guard > data.len() + 8 {
                            break;
                        }
                        let n = end - pos;
                        let res = s.write(&data[pos..end]);
                        let mut stop = false;
                        let ev = match res {
                            Ok(k) => {
                                pos += k.min(n);
                                if k == 0 {
                                    out.stalled = true;
                                    stop = true;
                                }
                                Ok(k)
                            }
                            Err(e) => {
                                if out.first_write_err.is_none() {
                                    out.first_write_err = Some(out.events.len());
                                }
                                dead = true;
                                stop = true;
                                Err(errstr(e))
                            }
                        };
                        crate::heap::driver(|| out.events.push(StreamEvent {
                            op,
                            offered: n,
                            result: ev,
                            sink_len: st.borrow().accepted.len(),
                            fault_fired: st.borrow().fired_hard > fired_before,
                        }));
                        if stop {
                            break;
                        }
                    }
                }
                OP_FLUSH => {
                    let res = s.flush();
                    crate::heap::driver(|| out.events.push(StreamEvent {
                        op,
                        offered: 0,
                        result: res.map(|_| 0).map_err(errstr),
                        sink_len: st.borrow().accepted.len(),
                            fault_fired: st.borrow().fired_hard > fired_before,
                    }));
                }
                OP_PEEK | OP_PEEK_MUT => {
                    let gone = if op == OP_PEEK {
                        s.get_output().is_none()
                    } else {
                        s.get_output_mut().is_none()
                    };
                    if gone {
                        out.output_gone = true;
                    }
                    crate::heap::driver(|| out.events.push(StreamEvent {
                        op,
                        offered: 0,
                        result: Ok(if gone { 0 } else { 1 }),
                        sink_len: st.borrow().accepted.len(),
                            fault_fired: st.borrow().fired_hard > fired_before,
                    }));
                }
                OP_DEBUG => {
                    crate::heap::driver(|| drop(format!("{:?}", s)));
                }
                OP_FINISH => {
                    let s = stream.take().unwrap();
                    let res = s.finish();
                    let v = match res {
                        Ok(_) => Verdict::Ok,
                        Err(e) => Verdict::Err(errstr(e)),
                    };
                    crate::heap::driver(|| out.events.push(StreamEvent {
                        op,
                        offered: 0,
                        result: if v.is_ok() { Ok(0) } else { Err(v.short()) },
                        sink_len: st.borrow().accepted.len(),
                            fault_fired: st.borrow().fired_hard > fired_before,
                    }));
                    out.finish = Some(v);
                }
                _ => {}
            }
        }
        out.fed = pos;
    });
    if let Err(p) = r {
        out.panicked = Some(p);
    }
    out
}

/// Overall verdict of a stream history the way a `write_all` + `finish` user
/// sees it.
pub fn stream_verdict(o: &StreamOutcome) -> Verdict {
    if let Some(p) = &o.panicked {
        return Verdict::Panic(p.clone());
    }
    if let Some(i) = o.first_write_err {
        if let Err(e) = &o.events[i].result {
            return Verdict::Err(format!("write: {}", e));
        }
    }
    match &o.finish {
        Some(v) => v.clone(),
        None => Verdict::Err("history without finish".into()),
    }
}
