//! Oracle self-test: the reference model is checked against itself and against
//! liblzma (through the rust-lzma crate) in both directions. A failure here is
//! a harness error (exit 2), never a violation.

use crate::gen;
use crate::prng::Tape;
use crate::refmodel::codec::{Props, RefDec, RefEnc};
use crate::refmodel::container::*;
use crate::refmodel::crc;

pub fn run(n: u64, seed: u64) -> Result<String, String> {
    // fixed vectors for the hash functions
    if crc::crc32(b"123456789") != 0xCBF4_3926 {
        return Err("crc32 check value".into());
    }
    {
        // forged CRC32: 32 contiguous bits, and 35 scattered integer-payload bits
        let mut m = *b"\x02\x00\x04\x04\x00\x00\x00\x00\x00\x00\x00";
        let free: Vec<usize> = (32..64).collect();
        if !crc::forge_crc32(&mut m, &free, 0xDEAD_BEEF) || crc::crc32(&m) != 0xDEAD_BEEF || m[..4] != *b"\x02\x00\x04\x04" || m[8..] != [0, 0, 0] {
            return Err("forge_crc32 contiguous".into());
        }
        let mut m = [0x80u8; 12];
        let free: Vec<usize> = (2..7).flat_map(|b| (0..7).map(move |k| b * 8 + k)).collect();
        if !crc::forge_crc32(&mut m, &free, 0x1234_5678) || crc::crc32(&m) != 0x1234_5678 || m.iter().any(|b| b & 0x80 == 0) {
            return Err("forge_crc32 scattered".into());
        }
    }
    if crc::crc64(b"123456789") != 0x995D_C9BB_DF19_39FA {
        return Err("crc64 check value".into());
    }
    let h = crc::sha256(b"abc");
    if h[..4] != [0xba, 0x78, 0x16, 0xbf] || h[28..] != [0xf2, 0x00, 0x15, 0xad] {
        return Err("sha256 check value".into());
    }
    // the embedded range-encoder boundary witnesses still do what they say
    for i in 0..gen::RC_BOUNDARY_WITNESSES.len() {
        let (target, w) = gen::rc_witness(i);
        if !crate::rcsearch::lows_at_shifts(&w).contains(&target) {
            return Err(format!("range-encoder witness {}: low never equals {:#x} at a shift", i, target));
        }
    }
    // likewise the direct-bit witnesses: the range register still reaches the value,
    // and liblzma decodes the stream to the model's output
    for (i, w) in gen::DIRECT_BIT_WITNESSES.iter().enumerate() {
        let (props, dict, payload, expect, mask) = crate::rcsearch::build_db_witness(w.0, w.1, true);
        if mask & (1 << w.2) == 0 {
            return Err(format!("direct-bit witness {}: the range register never holds {:#x} before a direct bit", i, crate::refmodel::codec::DIRECT_BIT_WATCH[w.2 as usize]));
        }
        let mut file = crate::refmodel::container::lzma_header(props, dict as u32, Some(u64::MAX));
        file.extend_from_slice(&payload);
        match lzma::decompress(&file) {
            Ok(out) if out == expect => {}
            Ok(out) => return Err(format!("direct-bit witness {}: liblzma decodes {} bytes, the model has {}", i, out.len(), expect.len())),
            Err(e) => return Err(format!("direct-bit witness {}: liblzma refuses it: {:?}", i, e)),
        }
    }
    let mut lib_lzma = 0u64;
    let mut lib_xz = 0u64;
    let mut ref_rt = 0u64;
    for i in 0..n {
        let mut t = Tape::random(crate::prng::mix(&[seed, 0x5e1f, i]));
        // (a) encoder -> decoder -> model for arbitrary lc/lp/pb
        let props = if i < 225 {
            Props::from_byte(i as u8).unwrap()
        } else {
            gen::draw_props(&mut t, false)
        };
        let (dict_hdr, dict) = gen::draw_dict_header(&mut t);
        let cfg = gen::draw_cfg(&mut t);
        let target = gen::draw_target_len(&mut t, dict);
        let mut enc = RefEnc::new(props, dict);
        gen::gen_program(&mut t, &cfg, &mut enc, target, 4000, &mut gen::ProgStats::default());
        let with_marker = t.below(2) == 0;
        if with_marker {
            enc.encode_end_marker();
        }
        let shifts_consumed = enc.consumed() as usize;
        let payload = enc.finish_segment();
        if payload.len() != shifts_consumed {
            return Err(format!(
                "encoder: emitted {} bytes but 5+shifts = {}",
                payload.len(),
                shifts_consumed
            ));
        }
        let expect = enc.model.out.clone();
        let mut dec = RefDec::new(props, dict);
        dec.keep_trace = true;
        let target_size = if with_marker { None } else { Some(expect.len() as u64) };
        match dec.decode_segment(&payload, target_size, true) {
            Ok(end) => {
                if dec.model.out != expect {
                    return Err(format!("ref enc/dec disagree on output (case {})", i));
                }
                if end.consumed != payload.len() {
                    return Err(format!(
                        "ref dec consumed {} of {} (case {})",
                        end.consumed,
                        payload.len(),
                        i
                    ));
                }
                if dec.trace != enc.trace {
                    return Err(format!("ref enc/dec traces differ (case {})", i));
                }
            }
            Err(e) => return Err(format!("ref dec rejects ref enc output: {:?} (case {})", e, i)),
        }
        ref_rt += 1;
        // (b) liblzma must agree on .lzma files (lc+lp <= 4 is all it accepts)
        if props.lc + props.lp <= 4 && dict <= 0x0080_0000 {
            // liblzma's .lzma detector only accepts 2^n / 2^n+2^(n-1) dictionary sizes
            let dict_hdr = 0x0080_0000u32;
            let _ = dict_hdr;
            let size_field = if with_marker { u64::MAX } else { expect.len() as u64 };
            let mut file = lzma_header(props, dict_hdr, Some(size_field));
            file.extend_from_slice(&payload);
            match lzma::decompress(&file) {
                Ok(o) => {
                    if o != expect {
                        return Err(format!("liblzma decodes ref .lzma differently (case {})", i));
                    }
                }
                Err(e) => {
                    return Err(format!("liblzma rejects ref .lzma: {:?} (case {})", e, i))
                }
            }
            let (o, used) = ref_lzma_decode(&file, true, None)
                .map_err(|e| format!("ref_lzma_decode: {} (case {})", e, i))?;
            if o != expect || used != file.len() {
                return Err(format!("ref_lzma_decode disagrees (case {})", i));
            }
            lib_lzma += 1;
        }
        // (c) LZMA2 chunk plans wrapped in .xz must decode in liblzma
        let mut t2 = Tape::random(crate::prng::mix(&[seed, 0x5e2f, i]));
        let built = crate::props::common::gen_lzma2(&mut t2, 3000, true);
        let (o, used) = ref_lzma2_decode(&built.bytes, true)
            .map_err(|e| format!("ref_lzma2_decode rejects own LZMA2: {:?} (case {})", e, i))?;
        if o != built.expect || used != built.bytes.len() {
            return Err(format!("ref_lzma2_decode disagrees with the model (case {})", i));
        }
        let check_id = [0u8, 1, 4, 10][(i % 4) as usize];
        let xz = wrap_lzma2_in_xz_small(&built.bytes, &built.expect, check_id);
        match lzma::decompress(&xz) {
            Ok(o) => {
                if o != built.expect {
                    return Err(format!("liblzma decodes ref LZMA2/.xz differently (case {})", i));
                }
            }
            Err(e) => return Err(format!("liblzma rejects ref .xz: {:?} (case {})", e, i)),
        }
        if ref_xz_decode(&xz).map_err(|e| format!("ref_xz_decode: {} (case {})", e, i))? != built.expect
        {
            return Err(format!("ref_xz_decode disagrees (case {})", i));
        }
        if judge_xz(&xz, &built.expect) != Judge::Agree {
            return Err(format!("judge_xz rejects a valid file: {:?} (case {})", judge_xz(&xz, &built.expect), i));
        }
        lib_xz += 1;
        // (d) liblzma-compressed data must decode in the reference decoder
        if i % 8 == 0 {
            let plain = gen::draw_plain(&mut t, (i as usize * 37) % 5000);
            let z = lzma::compress(&plain, (i % 7) as u32).map_err(|e| format!("{:?}", e))?;
            let o = ref_xz_decode(&z).map_err(|e| format!("ref_xz_decode on liblzma output: {}", e))?;
            if o != plain {
                return Err("ref_xz_decode decodes liblzma output differently".into());
            }
            if judge_xz(&z, &plain) != Judge::Agree {
                return Err(format!("judge_xz rejects liblzma output: {:?}", judge_xz(&z, &plain)));
            }
        }
    }
    Ok(format!(
        "selftest ok: {} enc/dec/model round trips, {} .lzma and {} LZMA2-in-.xz files cross-checked with liblzma",
        ref_rt, lib_lzma, lib_xz
    ))
}

fn wrap_lzma2_in_xz_small(payload: &[u8], content: &[u8], check_id: u8) -> Vec<u8> {
    let plan = XzPlan {
        check_id,
        blocks: vec![BlockPlan {
            payload: payload.to_vec(),
            content: content.to_vec(),
            filters: vec![(0x21, vec![22])], // 8 MiB dictionary
            ..Default::default()
        }],
        ..Default::default()
    };
    build_xz(&plan).bytes
}

/// Development aid: how long do the adversarial symbols get?
pub fn long_symbol_report() {
    let mut hist = [0u32; 24];
    for i in 0..200u64 {
        let mut t = Tape::random(i);
        let b = crate::props::common::gen_long_symbol(&mut t, 0);
        let m = b.max_symbol_bytes().min(23);
        hist[m as usize] += 1;
        if i < 3 {
            println!("out={} payload={} max_symbol_bytes={}", b.expect.len(), b.payload.len(), b.max_symbol_bytes());
        }
    }
    println!("max-symbol-bytes histogram: {:?}", hist);
    let mut hist = [0u32; 24];
    for i in 0..100u64 {
        let mut t = Tape::random(i);
        let b = crate::props::common::gen_long_marker(&mut t);
        let m = b.max_symbol_bytes().min(23);
        hist[m as usize] += 1;
        if i < 3 {
            println!("marker: out={} payload={} max_symbol_bytes={}", b.expect.len(), b.payload.len(), b.max_symbol_bytes());
            // liblzma must accept a marker with a long length
            if b.props.lc + b.props.lp <= 4 {
                let mut f = crate::refmodel::container::lzma_header(b.props, 0x0080_0000, Some(u64::MAX));
                f.extend_from_slice(&b.payload);
                println!("  liblzma: {:?}", lzma::decompress(&f).map(|o| o == b.expect));
            }
        }
    }
    println!("long-marker max-symbol-bytes histogram: {:?}", hist);
    let mut h = [0u32; 12];
    for i in 0..200u64 {
        let mut t = Tape::random(i);
        let (p, r) = gen::carry_stress_plain(&mut t);
        h[(r as usize).min(11)] += 1;
        if i < 2 {
            println!("carry stress: {} bytes, carry resolved a run of {} pending 0xFF", p.len(), r);
        }
    }
    println!("carry-resolved pending-run histogram: {:?}", h);
}
