//! Swarm-style workload generators driven by the choice tape: symbol programs
//! (always legal unless asked otherwise), plaintext classes, I/O scripts.

use crate::prng::Tape;
use crate::refmodel::codec::{Props, RefEnc};
use crate::refmodel::lz::{LzModel, Sym};

/// Per-run weights (redrawn for every run).
#[derive(Clone, Debug)]
pub struct SymCfg {
    pub w_kind: [u32; 4], // lit, match, shortrep, rep
    pub w_len: [u32; 8],
    pub w_dist: [u32; 8],
    pub w_lit: [u32; 5],
    /// probability (per 64) of starting a training run
    pub train: u64,
}

pub fn draw_cfg(t: &mut Tape) -> SymCfg {
    let w = |t: &mut Tape, base: u32| -> u32 {
        // 0 (disabled) is possible for everything but literals
        match t.below(4) {
            0 => base,
            1 => 0,
            2 => base * 4,
            _ => 1,
        }
    };
    let mut c = SymCfg {
        w_kind: [4, 0, 0, 0],
        w_len: [0; 8],
        w_dist: [0; 8],
        w_lit: [0; 5],
        train: 0,
    };
    c.w_kind[0] = w(t, 4).max(1);
    c.w_kind[1] = w(t, 3);
    c.w_kind[2] = w(t, 1);
    c.w_kind[3] = w(t, 2);
    for i in 0..8 {
        c.w_len[i] = w(t, 2);
        c.w_dist[i] = w(t, 2);
    }
    c.w_len[0] = c.w_len[0].max(1);
    c.w_dist[0] = c.w_dist[0].max(1);
    for i in 0..5 {
        c.w_lit[i] = w(t, 2);
    }
    c.w_lit[0] = c.w_lit[0].max(1);
    c.train = [0u64, 0, 2, 8][t.below(4) as usize];
    c
}

fn draw_len(t: &mut Tape, c: &SymCfg, max: u32) -> u32 {
    let l = match t.weighted(&c.w_len) {
        0 => 2,
        1 => t.range(3, 8) as u32,
        2 => 9,
        3 => 10,
        4 => 17,
        5 => 18,
        6 => t.range(19, 272) as u32,
        _ => 273,
    };
    l.min(max.max(2)).max(2)
}

/// Draw a legal distance in 1..=lim. `cursor`: position in the circular window.
fn draw_dist(t: &mut Tape, c: &SymCfg, lim: u64, cursor: u64, len: u32) -> u32 {
    let d = match t.weighted(&c.w_dist) {
        0 => 1,
        1 => lim,                          // everything produced / the whole window
        2 => t.range(1, lim.min(4)),       // slots 0-3
        3 => t.range(1, lim.min(128)),     // slots up to 13
        4 => t.range(1, lim),              // anything
        5 => cursor + t.below(len as u64 + 1), // source straddles the wrap point
        6 => lim.saturating_sub(t.below(4)),   // just inside the limit
        _ => {
            if t.below(2) == 0 {
                t.range(1, lim.min(16))
            } else {
                // around the first distance at which source and destination no
                // longer overlap: len-1, len, len+1
                (len as u64 + t.below(3)).saturating_sub(1)
            }
        }
    };
    d.clamp(1, lim) as u32
}

/// State of a generator run (training phases).
#[derive(Clone, Debug, Default)]
pub struct GenState {
    train_left: u32,
    train_sym: Option<Sym>,
}

/// Next legal symbol for the model state `m`. `budget`: how many more output
/// bytes may be produced (>= 1).
pub fn next_sym(t: &mut Tape, c: &SymCfg, g: &mut GenState, m: &LzModel, budget: u64) -> Sym {
    let avail = m.avail() as u64;
    let lim = avail.min(m.dict_size);
    // training run: repeat one symbol so that its probabilities saturate
    if g.train_left > 0 {
        g.train_left -= 1;
        if let Some(s) = g.train_sym {
            let fits = match s {
                Sym::Lit(_) | Sym::ShortRep => true,
                Sym::Match { len, .. } | Sym::Rep { len, .. } => (len as u64) <= budget,
            };
            if m.legal(s) && fits {
                return s;
            }
        }
        g.train_left = 0;
    }
    let maxlen = budget.min(273) as u32;
    let mut kind = t.weighted(&c.w_kind);
    if lim == 0 || (kind != 0 && kind != 2 && maxlen < 2) {
        kind = 0;
    }
    let s = match kind {
        1 => {
            let len = draw_len(t, c, maxlen);
            let cursor = if m.dict_size > 0 && m.dict_size < u32::MAX as u64 {
                avail % m.dict_size
            } else {
                avail
            };
            Sym::Match {
                dist: draw_dist(t, c, lim, cursor, len),
                len,
            }
        }
        2 => {
            if m.legal(Sym::ShortRep) {
                Sym::ShortRep
            } else {
                Sym::Lit(t.byte())
            }
        }
        3 => {
            let idx = t.below(4) as u8;
            let s = Sym::Rep {
                idx,
                len: draw_len(t, c, maxlen),
            };
            if m.legal(s) {
                s
            } else {
                Sym::Lit(t.byte())
            }
        }
        _ => {
            let n = m.out.len();
            let mb = if (m.reps[0] as u64) < lim {
                m.out[n - 1 - m.reps[0] as usize]
            } else {
                0
            };
            let b = match t.weighted(&c.w_lit) {
                0 => t.byte(),
                1 => mb,                               // equals the match byte
                2 => mb ^ (1 << t.below(8)),           // differs in one bit
                3 => 0,
                _ => {
                    if n > 0 {
                        m.out[n - 1].wrapping_add(1)
                    } else {
                        0xFF
                    }
                }
            };
            Sym::Lit(b)
        }
    };
    if c.train > 0 && t.below(64) < c.train {
        g.train_left = t.range(4, 60) as u32;
        g.train_sym = Some(s);
    }
    s
}

/// lc/lp/pb: all 225 combinations reachable; `lzma2` restricts to lc+lp <= 4.
pub fn draw_props(t: &mut Tape, lzma2: bool) -> Props {
    loop {
        let style = t.below(4);
        let p = match style {
            0 => Props {
                lc: 3,
                lp: 0,
                pb: 2,
            },
            1 => Props {
                lc: 0,
                lp: 0,
                pb: 0,
            },
            _ => Props {
                lc: t.below(9) as u32,
                lp: t.below(5) as u32,
                pb: t.below(5) as u32,
            },
        };
        if !lzma2 || p.lc + p.lp <= 4 {
            return p;
        }
        if t.used() > 1_000_000 {
            return Props {
                lc: 0,
                lp: 0,
                pb: 0,
            };
        }
        // replay tapes that run dry produce zeros -> style 0 -> terminates
    }
}

/// Header dictionary-size values; returns (header value, effective size).
pub fn draw_dict_header(t: &mut Tape) -> (u32, u64) {
    let v: u32 = match t.below(10) {
        0 => 4096,
        1 => 0,
        2 => 1,
        3 => 4095,
        4 => 4097,
        5 => 0x1_0000,
        6 => 0xFFFF_FFFF,
        7 => 0x0080_0000,
        8 => t.range(4096, 8192) as u32,
        _ => 4096,
    };
    (v, (v as u64).max(4096))
}

/// What a generated program exercised (reach probes, inferred from the model).
#[derive(Clone, Debug, Default)]
pub struct ProgStats {
    pub symbols: u32,
    pub kinds: [u32; 4],
    pub overlap_copies: u32,
    pub src_wrap_copies: u32,
    pub dst_wrap_copies: u32,
    pub max_dist: u64,
    pub len_273: u32,
    /// longest match (273) whose source does not overlap the destination
    pub len_273_far: u32,
    pub dist_eq_dict: u32,
    pub dist_eq_avail: u32,
    /// bit mask of (state_before) seen
    pub states: u32,
    /// LZMA2: `avail` at the start of the chunk being generated
    pub chunk_start_avail: u64,
    /// copies whose source starts before the current chunk
    pub cross_chunk_copies: u32,
}

impl ProgStats {
    pub fn note(&mut self, s: Sym, m: &LzModel, state: usize) {
        self.symbols += 1;
        self.states |= 1 << state;
        let (dist, len) = match s {
            Sym::Lit(_) => {
                self.kinds[0] += 1;
                return;
            }
            Sym::Match { dist, len } => {
                self.kinds[1] += 1;
                (dist as u64, len as u64)
            }
            Sym::ShortRep => {
                self.kinds[2] += 1;
                (m.reps[0] as u64 + 1, 1)
            }
            Sym::Rep { idx, len } => {
                self.kinds[3] += 1;
                (m.reps[idx as usize] as u64 + 1, len as u64)
            }
        };
        self.max_dist = self.max_dist.max(dist);
        if dist < len {
            self.overlap_copies += 1;
        }
        if len == 273 {
            self.len_273 += 1;
            if dist >= 273 {
                self.len_273_far += 1;
            }
        }
        let avail = m.avail() as u64;
        if dist > avail.saturating_sub(self.chunk_start_avail) && self.chunk_start_avail > 0 {
            self.cross_chunk_copies += 1;
        }
        if dist == avail {
            self.dist_eq_avail += 1;
        }
        if dist == m.dict_size {
            self.dist_eq_dict += 1;
        }
        if m.dict_size > 0 && m.dict_size <= (1 << 24) {
            let d = m.dict_size;
            let cursor = avail % d;
            let src = (cursor + d - (dist % d)) % d;
            if src + len > d {
                self.src_wrap_copies += 1;
            }
            if cursor + len >= d {
                self.dst_wrap_copies += 1;
            }
        }
    }
}

/// Generate a legal program of about `target` output bytes into `enc`.
pub fn gen_program(
    t: &mut Tape,
    c: &SymCfg,
    enc: &mut RefEnc,
    target: u64,
    max_syms: u32,
    ps: &mut ProgStats,
) -> u32 {
    let mut g = GenState::default();
    let start = enc.model.out.len() as u64;
    let mut n = 0;
    while (enc.model.out.len() as u64) < start + target && n < max_syms {
        let budget = start + target - enc.model.out.len() as u64;
        let s = next_sym(t, c, &mut g, &enc.model, budget);
        ps.note(s, &enc.model, enc.state);
        let _ = enc.encode(s);
        n += 1;
    }
    n
}

/// Output length: mostly small, regularly several laps of a small window.
pub fn draw_target_len(t: &mut Tape, dict: u64) -> u64 {
    match t.below(10) {
        0..=5 => t.range(1, 300),
        6 => t.range(0, 3),
        7 => t.range(300, 3000),
        8 => {
            if dict <= 8192 {
                // a third: exactly a whole number of windows (the last symbol fills the window)
                dict * t.range(1, 4) + if t.below(3) == 0 { 0 } else { t.below(600) }
            } else {
                t.range(300, 6000)
            }
        }
        _ => {
            if dict <= 8192 {
                dict.saturating_sub(300) + t.below(600)
            } else {
                t.range(1, 300)
            }
        }
    }
}

/// I/O script: sizes per refill / per write; empty = everything at once.
pub fn draw_script(t: &mut Tape) -> Vec<u64> {
    match t.below(6) {
        0 => vec![],
        1 => vec![1],
        2 => vec![t.range(2, 40)],
        3 => {
            let n = t.range(2, 8);
            (0..n).map(|_| t.range(1, 24)).collect()
        }
        4 => {
            let n = t.range(2, 6);
            (0..n).map(|_| [1u64, 2, 3, 5, 0, 19, 20, 21][t.below(8) as usize]).collect()
        }
        _ => vec![t.range(1, 4096)],
    }
}

/// Plaintext for the encoders.
pub fn draw_plain(t: &mut Tape, len: usize) -> Vec<u8> {
    let class = t.below(7);
    let seed = if matches!(class, 0 | 1 | 4) { 0 } else { t.u64() };
    plain_from(class, seed, len)
}

/// The plaintext classes, as a pure function of (class, seed, length), so that big
/// inputs can be described by three numbers.
pub fn plain_from(class: u64, seed: u64, len: usize) -> Vec<u8> {
    let mut v = Vec::with_capacity(len);
    let mut r = crate::prng::Xoshiro::new(seed);
    match class {
        0 => v.resize(len, 0x00),
        1 => v.resize(len, 0xFF),
        2 => {
            for _ in 0..len {
                v.push(r.next() as u8);
            }
        }
        3 => {
            // sparse
            for _ in 0..len {
                let x = r.next();
                v.push(if x % 37 == 0 { (x >> 8) as u8 } else { 0 });
            }
        }
        4 => {
            for i in 0..len {
                v.push((i % 251) as u8);
            }
        }
        5 => {
            // long runs that saturate probabilities, then a surprise
            let mut b = 0xFFu8;
            let mut left = 0u64;
            for _ in 0..len {
                if left == 0 {
                    left = 1 + r.next() % 400;
                    b = [0x00, 0xFF, 0x7F, 0x80, 0x55][(r.next() % 5) as usize];
                }
                left -= 1;
                v.push(b);
            }
        }
        _ => {
            for _ in 0..len {
                v.push(b"abcde \n"[(r.next() % 7) as usize]);
            }
        }
    }
    v
}

/// Capacity of a real std BufReader: mostly small (so that refills fall everywhere),
/// sometimes the sizes code tends to assume (std's default 8192, 4096, 65536) or the
/// decoder's own constants (5, 13, 18, 20).
pub fn draw_bufcap(t: &mut Tape, small_max: u64) -> u64 {
    match t.below(10) {
        0 => 8192,
        1 => [4096u64, 65536, 8191, 8193][t.below(4) as usize],
        2 => [1u64, 2, 3, 4, 5, 13, 18, 20, 21][t.below(9) as usize],
        _ => t.range(1, small_max),
    }
}

/// Plaintexts (hex) under which the literal-only range encoder's 33-bit `low`
/// register holds exactly the given value at the moment a byte is shifted out:
/// the two boundaries of "emit now / defer (pending 0xFF) / carry". Found by
/// `lzsim rcwitness` (random data gets there with probability ~2^-32 per byte);
/// the self-test re-derives the values with an independent model of the encoder.
pub const RC_BOUNDARY_WITNESSES: [(u64, &str); 4] = [
    (0xfeffffff, "2004a1508adec392b8919ff2069e8aa165061bee009b8c2cc59537068097270d6956855354f98eea1b93d7a144e4e7b56a0e7117444ab650b7b6750884df1260b3ba3dfd79fb9dba33c12e27ea09c6ec76507df945b6931f89f05201ffa59f710938f7060319496d8d00da51076db7749a419ea56d4842ce8a261bafab6d11e3e146bec831e3b1ce2f4f217848193df7b1f8476632b51dc986f2f7224edc5f5b8efca472cf1be984b1f5b25819e21b07da819b68c0c1db9aabf799d510812e206ed2d05a"),
    (0xff000000, "2244199697b8515518208d2e86c430"),
    (0xffffffff, "54fc3209e2e5b04f66f545e2ce9f899e40b6c01f89cb65cae6c49171f50bad32259070f0a4316050689d47a05a426924afe3df2a9a05a8"),
    (0x100000000, "7420220a4aba039cd3b9dbd3a4a9d2"),
];

pub fn rc_witness(i: usize) -> (u64, Vec<u8>) {
    let (v, h) = RC_BOUNDARY_WITNESSES[i % RC_BOUNDARY_WITNESSES.len()];
    let b = (0..h.len() / 2).map(|k| u8::from_str_radix(&h[2 * k..2 * k + 2], 16).unwrap()).collect();
    (v, b)
}

pub fn draw_bytes(t: &mut Tape, n: usize) -> Vec<u8> {
    (0..n).map(|_| t.byte()).collect()
}

/// Plaintext constructed so that the literal-only LZMA encoder (lc=3, lp=0, pb=2,
/// which is exactly the reference encoder fed with literals) builds up a run of
/// pending 0xFF bytes in its range coder and then resolves it with a carry — the
/// "carry propagation through 0xFF bytes" case, which random data reaches with
/// probability ~1e-10 per byte for runs of four or more. Greedy search over the
/// next byte, guided by a clone of the encoder state. Returns the plaintext and
/// the longest pending run that a carry resolved.
pub fn carry_stress_plain(t: &mut Tape) -> (Vec<u8>, u64) {
    let props = Props { lc: 3, lp: 0, pb: 2 };
    let mut enc = RefEnc::new(props, 1 << 23);
    enc.keep_trace = false;
    let mut plain: Vec<u8> = Vec::new();
    for _ in 0..t.below(24) {
        let b = t.byte();
        let _ = enc.encode(Sym::Lit(b));
        plain.push(b);
    }
    let mut best_resolved = 0u64;
    let want = t.range(4, 7);
    for _round in 0..4 {
        // phase 1: grow the pending run
        let mut steps = 0;
        while enc.pending_bytes() < want + 1 && steps < 60 {
            steps += 1;
            let start = t.below(256) as usize;
            let mut best: Option<((u64, u64), u8)> = None;
            for k in 0..256usize {
                let b = ((start + k) & 0xFF) as u8;
                let mut e2 = enc.clone();
                let _ = e2.encode(Sym::Lit(b));
                // longest pending run first, then `low` as close to the top as possible
                // (stays in the 0xFF.. region and is ready to carry)
                let key = (e2.pending_bytes(), e2.low() & 0xFFFF_FFFF);
                if best.map(|x| key > x.0).unwrap_or(true) {
                    best = Some((key, b));
                }
            }
            let (_, b) = best.unwrap();
            let _ = enc.encode(Sym::Lit(b));
            plain.push(b);
        }
        // phase 2: resolve it with a carry: the flushed run comes out as 0x00 bytes
        let pending = enc.pending_bytes();
        let before = enc.emitted().len();
        let start = t.below(256) as usize;
        let mut done = false;
        for k in 0..256usize {
            let b = ((start + k) & 0xFF) as u8;
            let mut e2 = enc.clone();
            let _ = e2.encode(Sym::Lit(b));
            let out = e2.emitted();
            if out.len() >= before + pending as usize && pending >= 2 {
                let run = &out[before + 1..before + pending as usize];
                if run.iter().all(|x| *x == 0x00) {
                    let _ = enc.encode(Sym::Lit(b));
                    plain.push(b);
                    best_resolved = best_resolved.max(pending - 1);
                    done = true;
                    break;
                }
            }
        }
        if !done {
            let b = t.byte();
            let _ = enc.encode(Sym::Lit(b));
            plain.push(b);
        }
        for _ in 0..t.below(6) {
            let b = t.byte();
            let _ = enc.encode(Sym::Lit(b));
            plain.push(b);
        }
    }
    (plain, best_resolved)
}

/// (tail seed, tail symbols, index into refmodel::codec::DIRECT_BIT_WATCH): programs,
/// found by `lzsim dbwitness`, under which the decoder's range register holds that
/// value right before it is halved for a direct bit of a long distance (about one
/// direct bit in 2^26 does). Rebuilt by `rcsearch::build_db_witness`; the self-test
/// checks that each one still reaches its value.
pub const DIRECT_BIT_WITNESSES: [(u64, u32, u32); 4] = [
    (0x9e377ab97f4a7b6f, 1134, 0), // range 0x01ffffff before a direct bit
    (0x9e377db97f4a7ce6, 159, 1),  // range 0x01fffffe before a direct bit
    (0x9e377bb97f4a7c25, 77, 2),   // range 0x02000000 before a direct bit
    (0x9e3778b97f4a79d2, 596, 3),  // range 0x02000001 before a direct bit
];
