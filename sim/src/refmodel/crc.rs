//! Own CRC32 (IEEE), CRC64 (XZ / ECMA-182 reflected) and SHA-256, written from
//! the definitions so that the oracle shares no table with the code under test.

pub fn crc32(data: &[u8]) -> u32 {
    crc32_update(0, data)
}

pub fn crc32_update(crc: u32, data: &[u8]) -> u32 {
    static TABLE: std::sync::OnceLock<[u32; 256]> = std::sync::OnceLock::new();
    let t = TABLE.get_or_init(|| {
        let mut t = [0u32; 256];
        for i in 0..256u32 {
            let mut c = i;
            for _ in 0..8 {
                c = if c & 1 != 0 { 0xEDB8_8320 ^ (c >> 1) } else { c >> 1 };
            }
            t[i as usize] = c;
        }
        t
    });
    let mut c = !crc;
    for b in data {
        c = t[((c ^ *b as u32) & 0xFF) as usize] ^ (c >> 8);
    }
    !c
}

pub fn crc64(data: &[u8]) -> u64 {
    static TABLE: std::sync::OnceLock<[u64; 256]> = std::sync::OnceLock::new();
    let t = TABLE.get_or_init(|| {
        let mut t = [0u64; 256];
        for i in 0..256u64 {
            let mut c = i;
            for _ in 0..8 {
                c = if c & 1 != 0 {
                    0xC96C_5795_D787_0F42 ^ (c >> 1)
                } else {
                    c >> 1
                };
            }
            t[i as usize] = c;
        }
        t
    });
    let mut c = !0u64;
    for b in data {
        c = t[((c ^ *b as u64) & 0xFF) as usize] ^ (c >> 8);
    }
    !c
}

pub fn sha256(data: &[u8]) -> [u8; 32] {
    const K: [u32; 64] = [
        0x428a2f98, 0x71374491, 0xb5c0fbcf, 0xe9b5dba5, 0x3956c25b, 0x59f111f1, 0x923f82a4,
        0xab1c5ed5, 0xd807aa98, 0x12835b01, 0x243185be, 0x550c7dc3, 0x72be5d74, 0x80deb1fe,
        0x9bdc06a7, 0xc19bf174, 0xe49b69c1, 0xefbe4786, 0x0fc19dc6, 0x240ca1cc, 0x2de92c6f,
        0x4a7484aa, 0x5cb0a9dc, 0x76f988da, 0x983e5152, 0xa831c66d, 0xb00327c8, 0xbf597fc7,
        0xc6e00bf3, 0xd5a79147, 0x06ca6351, 0x14292967, 0x27b70a85, 0x2e1b2138, 0x4d2c6dfc,
        0x53380d13, 0x650a7354, 0x766a0abb, 0x81c2c92e, 0x92722c85, 0xa2bfe8a1, 0xa81a664b,
        0xc24b8b70, 0xc76c51a3, 0xd192e819, 0xd6990624, 0xf40e3585, 0x106aa070, 0x19a4c116,
        0x1e376c08, 0x2748774c, 0x34b0bcb5, 0x391c0cb3, 0x4ed8aa4a, 0x5b9cca4f, 0x682e6ff3,
        0x748f82ee, 0x78a5636f, 0x84c87814, 0x8cc70208, 0x90befffa, 0xa4506ceb, 0xbef9a3f7,
        0xc67178f2,
    ];
    let mut h: [u32; 8] = [
        0x6a09e667, 0xbb67ae85, 0x3c6ef372, 0xa54ff53a, 0x510e527f, 0x9b05688c, 0x1f83d9ab,
        0x5be0cd19,
    ];
    let mut msg = data.to_vec();
    let bitlen = (data.len() as u64).wrapping_mul(8);
    msg.push(0x80);
    while msg.len() % 64 != 56 {
        msg.push(0);
    }
    msg.extend_from_slice(&bitlen.to_be_bytes());
    for chunk in msg.chunks(64) {
        let mut w = [0u32; 64];
        for i in 0..16 {
            w[i] = u32::from_be_bytes([
                chunk[4 * i],
                chunk[4 * i + 1],
                chunk[4 * i + 2],
                chunk[4 * i + 3],
            ]);
        }
        for i in 16..64 {
            let s0 = w[i - 15].rotate_right(7) ^ w[i - 15].rotate_right(18) ^ (w[i - 15] >> 3);
            let s1 = w[i - 2].rotate_right(17) ^ w[i - 2].rotate_right(19) ^ (w[i - 2] >> 10);
            w[i] = w[i - 16]
                .wrapping_add(s0)
                .wrapping_add(w[i - 7])
                .wrapping_add(s1);
        }
        let mut a = h;
        for i in 0..64 {
            let s1 = a[4].rotate_right(6) ^ a[4].rotate_right(11) ^ a[4].rotate_right(25);
            let ch = (a[4] & a[5]) ^ (!a[4] & a[6]);
            let t1 = a[7]
                .wrapping_add(s1)
                .wrapping_add(ch)
                .wrapping_add(K[i])
                .wrapping_add(w[i]);
            let s0 = a[0].rotate_right(2) ^ a[0].rotate_right(13) ^ a[0].rotate_right(22);
            let maj = (a[0] & a[1]) ^ (a[0] & a[2]) ^ (a[1] & a[2]);
            let t2 = s0.wrapping_add(maj);
            a[7] = a[6];
            a[6] = a[5];
            a[5] = a[4];
            a[4] = a[3].wrapping_add(t1);
            a[3] = a[2];
            a[2] = a[1];
            a[1] = a[0];
            a[0] = t1.wrapping_add(t2);
        }
        for i in 0..8 {
            h[i] = h[i].wrapping_add(a[i]);
        }
    }
    let mut out = [0u8; 32];
    for i in 0..8 {
        out[4 * i..4 * i + 4].copy_from_slice(&h[i].to_be_bytes());
    }
    out
}

/// Sets the listed free bits of `msg` (bit index = byte * 8 + bit) so that
/// `crc32(msg)` equals `target`. CRC32 is affine in the message for a fixed
/// length, so this is linear algebra over GF(2): false if the free bits do not
/// span the needed difference. At most 64 free bits.
pub fn forge_crc32(msg: &mut [u8], free: &[usize], target: u32) -> bool {
    assert!(free.len() <= 64);
    for &b in free {
        msg[b / 8] &= !(1u8 << (b % 8));
    }
    let base = crc32(msg);
    let mut basis: [(u32, u64); 32] = [(0, 0); 32];
    for (i, &b) in free.iter().enumerate() {
        msg[b / 8] ^= 1u8 << (b % 8);
        let mut v = crc32(msg) ^ base;
        msg[b / 8] ^= 1u8 << (b % 8);
        let mut m = 1u64 << i;
        while v != 0 {
            let p = 31 - v.leading_zeros() as usize;
            if basis[p].0 == 0 {
                basis[p] = (v, m);
                break;
            }
            v ^= basis[p].0;
            m ^= basis[p].1;
        }
    }
    let mut need = base ^ target;
    let mut pick = 0u64;
    while need != 0 {
        let p = 31 - need.leading_zeros() as usize;
        if basis[p].0 == 0 {
            return false;
        }
        need ^= basis[p].0;
        pick ^= basis[p].1;
    }
    for (i, &b) in free.iter().enumerate() {
        if pick >> i & 1 == 1 {
            msg[b / 8] |= 1u8 << (b % 8);
        }
    }
    crc32(msg) == target
}
