//! The small executable reference model: what a symbol program *means*.
//! A byte vector and four operations. This defines "the bytes the format
//! defines" for every check that compares against a correct output.

#[derive(Clone, Copy, Debug, PartialEq, Eq)]
pub enum Sym {
    Lit(u8),
    /// new distance (1-based) and length (2..=273)
    Match { dist: u32, len: u32 },
    /// one byte at the most recent distance
    ShortRep,
    /// repeat of the idx-th most recent distance (0..=3), length 2..=273
    Rep { idx: u8, len: u32 },
}

#[derive(Clone, Debug)]
pub struct LzModel {
    pub out: Vec<u8>,
    /// most recent distances, stored as distance-1 (all 0 initially, as the
    /// format defines)
    pub reps: [u32; 4],
    /// index in `out` of the first byte after the last dictionary reset
    pub dict_start: usize,
    /// window size in effect (distances above it are illegal)
    pub dict_size: u64,
}

#[derive(Clone, Copy, Debug, PartialEq, Eq)]
pub enum LzError {
    BeyondOutput,
    BeyondDict,
}

impl LzModel {
    pub fn new(dict_size: u64) -> LzModel {
        LzModel {
            out: Vec::new(),
            reps: [0; 4],
            dict_start: 0,
            dict_size,
        }
    }
    /// bytes available to copy from (since the last dictionary reset)
    pub fn avail(&self) -> usize {
        self.out.len() - self.dict_start
    }
    pub fn dict_reset(&mut self) {
        self.dict_start = self.out.len();
    }
    pub fn state_reset(&mut self) {
        self.reps = [0; 4];
    }
    fn copy(&mut self, dist: u64, len: u32) -> Result<(), LzError> {
        if dist > self.dict_size {
            return Err(LzError::BeyondDict);
        }
        if dist > self.avail() as u64 {
            return Err(LzError::BeyondOutput);
        }
        let d = dist as usize;
        for _ in 0..len {
            let b = self.out[self.out.len() - d];
            self.out.push(b);
        }
        Ok(())
    }
    /// Would this symbol be legal now?
    pub fn legal(&self, s: Sym) -> bool {
        let lim = (self.avail() as u64).min(self.dict_size);
        match s {
            Sym::Lit(_) => true,
            Sym::Match { dist, .. } => (dist as u64) <= lim && dist >= 1,
            Sym::ShortRep => (self.reps[0] as u64 + 1) <= lim,
            Sym::Rep { idx, .. } => (self.reps[idx as usize] as u64 + 1) <= lim,
        }
    }
    pub fn apply(&mut self, s: Sym) -> Result<(), LzError> {
        match s {
            Sym::Lit(b) => {
                self.out.push(b);
                Ok(())
            }
            Sym::Match { dist, len } => {
                self.reps = [dist.wrapping_sub(1), self.reps[0], self.reps[1], self.reps[2]];
                self.copy(dist as u64, len)
            }
            Sym::ShortRep => self.copy(self.reps[0] as u64 + 1, 1),
            Sym::Rep { idx, len } => {
                let i = idx as usize;
                let d = self.reps[i];
                for k in (0..i).rev() {
                    self.reps[k + 1] = self.reps[k];
                }
                self.reps[0] = d;
                self.copy(d as u64 + 1, len)
            }
        }
    }
}
