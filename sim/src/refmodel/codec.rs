//! Transparent reference LZMA encoder and reference decoder, written from the
//! LZMA specification (flat probability layout as in LzmaSpec.cpp). The encoder
//! encodes *exactly* the given symbol program — no match finding — for any
//! lc/lp/pb, and can be asked to encode illegal programs.

use super::lz::{LzError, LzModel, Sym};

pub const PROB_INIT: u16 = 1024;
const NUM_STATES: usize = 12;

#[derive(Clone, Copy, Debug, PartialEq, Eq)]
pub struct Props {
    pub lc: u32,
    pub lp: u32,
    pub pb: u32,
}

impl Props {
    pub fn byte(&self) -> u8 {
        ((self.pb * 5 + self.lp) * 9 + self.lc) as u8
    }
    pub fn from_byte(b: u8) -> Option<Props> {
        if b >= 225 {
            return None;
        }
        let b = b as u32;
        Some(Props {
            lc: b % 9,
            lp: (b / 9) % 5,
            pb: b / 45,
        })
    }
}

#[derive(Clone)]
struct LenProbs {
    choice: u16,
    choice2: u16,
    low: [[u16; 8]; 16],
    mid: [[u16; 8]; 16],
    high: [u16; 256],
}

impl LenProbs {
    fn new() -> LenProbs {
        LenProbs {
            choice: PROB_INIT,
            choice2: PROB_INIT,
            low: [[PROB_INIT; 8]; 16],
            mid: [[PROB_INIT; 8]; 16],
            high: [PROB_INIT; 256],
        }
    }
}

#[derive(Clone)]
struct Probs {
    props: Props,
    lit: Vec<u16>,
    is_match: [u16; NUM_STATES << 4],
    is_rep: [u16; NUM_STATES],
    is_rep_g0: [u16; NUM_STATES],
    is_rep_g1: [u16; NUM_STATES],
    is_rep_g2: [u16; NUM_STATES],
    is_rep0_long: [u16; NUM_STATES << 4],
    pos_slot: [[u16; 64]; 4],
    pos_special: [u16; 115],
    align: [u16; 16],
    len: LenProbs,
    rep_len: LenProbs,
}

impl Probs {
    fn new(props: Props) -> Probs {
        Probs {
            props,
            lit: vec![PROB_INIT; 0x300usize << (props.lc + props.lp)],
            is_match: [PROB_INIT; NUM_STATES << 4],
            is_rep: [PROB_INIT; NUM_STATES],
            is_rep_g0: [PROB_INIT; NUM_STATES],
            is_rep_g1: [PROB_INIT; NUM_STATES],
            is_rep_g2: [PROB_INIT; NUM_STATES],
            is_rep0_long: [PROB_INIT; NUM_STATES << 4],
            pos_slot: [[PROB_INIT; 64]; 4],
            pos_special: [PROB_INIT; 115],
            align: [PROB_INIT; 16],
            len: LenProbs::new(),
            rep_len: LenProbs::new(),
        }
    }
}

fn state_after_lit(s: usize) -> usize {
    if s < 4 {
        0
    } else if s < 10 {
        s - 3
    } else {
        s - 6
    }
}
fn state_after_match(s: usize) -> usize {
    if s < 7 {
        7
    } else {
        10
    }
}
fn state_after_rep(s: usize) -> usize {
    if s < 7 {
        8
    } else {
        11
    }
}
fn state_after_shortrep(s: usize) -> usize {
    if s < 7 {
        9
    } else {
        11
    }
}

// ------------------------------------------------------------------ range encoder

#[derive(Clone)]
struct RangeEnc {
    low: u64,
    range: u32,
    cache: u8,
    cache_size: u64,
    out: Vec<u8>,
    shifts: u64,
    /// bit i set: the range was exactly DIRECT_BIT_WATCH[i] right before a direct
    /// bit halved it (the decoder's range register holds the same value there)
    db_watch: u32,
}

/// Values of the range register around the point where halving it does / does not
/// call for a refill byte: 2^25-1 and 2^25-2 halve to 2^24-1 (refill), 2^25 and
/// 2^25+1 halve to 2^24 (no refill).
pub const DIRECT_BIT_WATCH: [u32; 4] = [0x01FF_FFFF, 0x01FF_FFFE, 0x0200_0000, 0x0200_0001];

impl RangeEnc {
    fn new() -> RangeEnc {
        RangeEnc {
            low: 0,
            range: 0xFFFF_FFFF,
            cache: 0,
            cache_size: 1,
            out: Vec::new(),
            shifts: 0,
            db_watch: 0,
        }
    }
    fn shift_low(&mut self) {
        if (self.low as u32) < 0xFF00_0000 || (self.low >> 32) != 0 {
            let mut temp = self.cache;
            loop {
                self.out.push(temp.wrapping_add((self.low >> 32) as u8));
                temp = 0xFF;
                self.cache_size -= 1;
                if self.cache_size == 0 {
                    break;
                }
            }
            self.cache = ((self.low as u32) >> 24) as u8;
        }
        self.cache_size += 1;
        self.low = ((self.low as u32) << 8) as u64;
    }
    #[inline]
    fn bit(&mut self, prob: &mut u16, bit: u32) {
        let bound = (self.range >> 11) * (*prob as u32);
        if bit == 0 {
            self.range = bound;
            *prob += (2048 - *prob) >> 5;
        } else {
            self.low += bound as u64;
            self.range -= bound;
            *prob -= *prob >> 5;
        }
        while self.range < (1 << 24) {
            self.range <<= 8;
            self.shift_low();
            self.shifts += 1;
        }
    }
    fn direct(&mut self, value: u32, nbits: u32) {
        for i in (0..nbits).rev() {
            if self.range >> 2 == 0x007F_FFFF || self.range >> 1 == 0x0100_0000 {
                for (k, w) in DIRECT_BIT_WATCH.iter().enumerate() {
                    if self.range == *w {
                        self.db_watch |= 1 << k;
                    }
                }
            }
            self.range >>= 1;
            if (value >> i) & 1 == 1 {
                self.low += self.range as u64;
            }
            while self.range < (1 << 24) {
                self.range <<= 8;
                self.shift_low();
                self.shifts += 1;
            }
        }
    }
    fn tree(&mut self, probs: &mut [u16], nbits: u32, value: u32) {
        let mut m = 1usize;
        for i in (0..nbits).rev() {
            let b = (value >> i) & 1;
            self.bit(&mut probs[m], b);
            m = (m << 1) | b as usize;
        }
    }
    fn tree_rev(&mut self, probs: &mut [u16], offset: usize, nbits: u32, value: u32) {
        let mut m = 1usize;
        for i in 0..nbits {
            let b = (value >> i) & 1;
            self.bit(&mut probs[offset + m], b);
            m = (m << 1) | b as usize;
        }
    }
    fn finish(&mut self) -> Vec<u8> {
        for _ in 0..5 {
            self.shift_low();
        }
        std::mem::take(&mut self.out)
    }
}

/// Per-symbol record: after symbol i the (eager) decoder has consumed
/// `consumed` bytes of the current range-coder segment (including the 5-byte
/// preamble) and the model output has `produced` bytes in total.
#[derive(Clone, Copy, Debug, PartialEq, Eq)]
pub struct SymRec {
    pub consumed: u32,
    pub produced: u32,
    /// 0 lit, 1 match, 2 shortrep, 3 rep, 4 end marker
    pub kind: u8,
    /// automaton state before the symbol
    pub state_before: u8,
}

#[derive(Clone)]
pub struct RefEnc {
    probs: Probs,
    rc: RangeEnc,
    pub state: usize,
    pub model: LzModel,
    pub trace: Vec<SymRec>,
    pub keep_trace: bool,
}

impl RefEnc {
    pub fn new(props: Props, dict_size: u64) -> RefEnc {
        RefEnc {
            probs: Probs::new(props),
            rc: RangeEnc::new(),
            state: 0,
            model: LzModel::new(dict_size),
            trace: Vec::new(),
            keep_trace: true,
        }
    }
    pub fn props(&self) -> Props {
        self.probs.props
    }
    /// which of DIRECT_BIT_WATCH the range register has held right before a direct bit
    pub fn direct_bit_watch(&self) -> u32 {
        self.rc.db_watch
    }
    /// number of bytes the range encoder is holding back (1 cached byte plus a
    /// run of pending 0xFF bytes that a later carry may still turn into 0x00)
    pub fn pending_bytes(&self) -> u64 {
        self.rc.cache_size
    }
    /// the range encoder's 33-bit `low` register
    pub fn low(&self) -> u64 {
        self.rc.low
    }
    /// bytes the range encoder has emitted so far in this segment
    pub fn emitted(&self) -> &[u8] {
        &self.rc.out
    }
    /// bytes of the current segment the eager decoder has consumed so far
    pub fn consumed(&self) -> u32 {
        (5 + self.rc.shifts) as u32
    }
    fn rec(&mut self, kind: u8, state_before: usize) {
        if self.keep_trace {
            self.trace.push(SymRec {
                consumed: self.consumed(),
                produced: self.model.out.len() as u32,
                kind,
                state_before: state_before as u8,
            });
        }
    }

    fn encode_len(rc: &mut RangeEnc, lp: &mut LenProbs, l: u32, pos_state: usize) {
        if l < 8 {
            rc.bit(&mut lp.choice, 0);
            rc.tree(&mut lp.low[pos_state], 3, l);
        } else if l < 16 {
            rc.bit(&mut lp.choice, 1);
            rc.bit(&mut lp.choice2, 0);
            rc.tree(&mut lp.mid[pos_state], 3, l - 8);
        } else {
            rc.bit(&mut lp.choice, 1);
            rc.bit(&mut lp.choice2, 1);
            rc.tree(&mut lp.high, 8, l - 16);
        }
    }

    fn encode_dist(&mut self, d: u32, len: u32) {
        let len_state = ((len - 2).min(3)) as usize;
        let slot = if d < 4 {
            d
        } else {
            let n = 31 - d.leading_zeros();
            2 * n + ((d >> (n - 1)) & 1)
        };
        self.rc.tree(&mut self.probs.pos_slot[len_state], 6, slot);
        if slot >= 4 {
            let nd = (slot >> 1) - 1;
            let base = (2 | (slot & 1)) << nd;
            let rem = d - base;
            if slot < 14 {
                self.rc.tree_rev(
                    &mut self.probs.pos_special,
                    (base - slot) as usize,
                    nd,
                    rem,
                );
            } else {
                self.rc.direct(rem >> 4, nd - 4);
                self.rc.tree_rev(&mut self.probs.align, 0, 4, rem & 15);
            }
        }
    }

    fn encode_literal(&mut self, b: u8) {
        let p = self.probs.props;
        let n = self.model.out.len();
        // at the start and right after an LZMA2 dictionary reset the previous
        // byte is defined as 0
        let prev = if self.model.avail() == 0 {
            0u32
        } else {
            self.model.out[n - 1] as u32
        };
        let pos = self.model.avail() as u32;
        let lit_state = (((pos & ((1 << p.lp) - 1)) << p.lc) + (prev >> (8 - p.lc))) as usize;
        let base = 0x300 * lit_state;
        let mut symbol = 1usize;
        if self.state >= 7 {
            let d = self.model.reps[0] as usize + 1;
            let mut match_byte = if d <= self.model.avail() {
                self.model.out[n - d] as u32
            } else {
                0 // illegal program (C09): the decoder must refuse before using it
            };
            while symbol < 0x100 {
                let match_bit = ((match_byte >> 7) & 1) as usize;
                match_byte <<= 1;
                let k = symbol.ilog2();
                let bit = ((b >> (7 - k)) & 1) as u32;
                self.rc
                    .bit(&mut self.probs.lit[base + ((1 + match_bit) << 8) + symbol], bit);
                symbol = (symbol << 1) | bit as usize;
                if match_bit as u32 != bit {
                    break;
                }
            }
        }
        while symbol < 0x100 {
            let k = symbol.ilog2();
            let bit = ((b >> (7 - k)) & 1) as u32;
            self.rc.bit(&mut self.probs.lit[base + symbol], bit);
            symbol = (symbol << 1) | bit as usize;
        }
    }

    /// Encode one symbol (legal or not) and apply it to the model. Returns the
    /// model's verdict on the symbol.
    pub fn encode(&mut self, s: Sym) -> Result<(), LzError> {
        let pb = self.probs.props.pb;
        let pos_state = self.model.avail() & ((1usize << pb) - 1);
        let st = self.state;
        let im = (st << 4) + pos_state;
        let kind;
        match s {
            Sym::Lit(b) => {
                self.rc.bit(&mut self.probs.is_match[im], 0);
                self.encode_literal(b);
                self.state = state_after_lit(st);
                kind = 0;
            }
            Sym::Match { dist, len } => {
                self.rc.bit(&mut self.probs.is_match[im], 1);
                self.rc.bit(&mut self.probs.is_rep[st], 0);
                Self::encode_len(&mut self.rc, &mut self.probs.len, len - 2, pos_state);
                self.encode_dist(dist.wrapping_sub(1), len);
                self.state = state_after_match(st);
                kind = 1;
            }
            Sym::ShortRep => {
                self.rc.bit(&mut self.probs.is_match[im], 1);
                self.rc.bit(&mut self.probs.is_rep[st], 1);
                self.rc.bit(&mut self.probs.is_rep_g0[st], 0);
                self.rc.bit(&mut self.probs.is_rep0_long[im], 0);
                self.state = state_after_shortrep(st);
                kind = 2;
            }
            Sym::Rep { idx, len } => {
                self.rc.bit(&mut self.probs.is_match[im], 1);
                self.rc.bit(&mut self.probs.is_rep[st], 1);
                if idx == 0 {
                    self.rc.bit(&mut self.probs.is_rep_g0[st], 0);
                    self.rc.bit(&mut self.probs.is_rep0_long[im], 1);
                } else {
                    self.rc.bit(&mut self.probs.is_rep_g0[st], 1);
                    if idx == 1 {
                        self.rc.bit(&mut self.probs.is_rep_g1[st], 0);
                    } else {
                        self.rc.bit(&mut self.probs.is_rep_g1[st], 1);
                        self.rc
                            .bit(&mut self.probs.is_rep_g2[st], if idx == 2 { 0 } else { 1 });
                    }
                }
                Self::encode_len(&mut self.rc, &mut self.probs.rep_len, len - 2, pos_state);
                self.state = state_after_rep(st);
                kind = 3;
            }
        }
        let r = self.model.apply(s);
        self.rec(kind, st);
        r
    }

    /// End-of-stream marker: a match with distance 2^32 and the minimum length.
    pub fn encode_end_marker(&mut self) {
        self.encode_end_marker_len(2);
    }
    /// The marker is recognised by its distance alone; any length 2..=273 may
    /// accompany it (liblzma and the LZMA SDK accept that too).
    pub fn encode_end_marker_len(&mut self, len: u32) {
        let pb = self.probs.props.pb;
        let pos_state = self.model.avail() & ((1usize << pb) - 1);
        let st = self.state;
        let im = (st << 4) + pos_state;
        self.rc.bit(&mut self.probs.is_match[im], 1);
        self.rc.bit(&mut self.probs.is_rep[st], 0);
        Self::encode_len(&mut self.rc, &mut self.probs.len, len - 2, pos_state);
        self.encode_dist(0xFFFF_FFFF, len);
        self.state = state_after_match(st);
        self.rec(4, st);
    }

    /// Development aid: information cost (bits) of each component of an end
    /// marker with the given length, under the current probabilities.
    pub fn marker_cost(&self, len: u32) -> Vec<(&'static str, f64)> {
        let c = |p: u16, bit: u32| -> f64 {
            let p0 = p as f64 / 2048.0;
            -(if bit == 0 { p0 } else { 1.0 - p0 }).log2()
        };
        let pb = self.probs.props.pb;
        let pos_state = self.model.avail() & ((1usize << pb) - 1);
        let st = self.state;
        let mut v = Vec::new();
        v.push(("is_match", c(self.probs.is_match[(st << 4) + pos_state], 1)));
        v.push(("is_rep", c(self.probs.is_rep[st], 0)));
        let l = len - 2;
        if l >= 16 {
            v.push(("choice", c(self.probs.len.choice, 1)));
            v.push(("choice2", c(self.probs.len.choice2, 1)));
            let mut m = 1usize;
            let mut t = 0.0;
            for i in (0..8).rev() {
                let b = ((l - 16) >> i) & 1;
                t += c(self.probs.len.high[m], b);
                m = (m << 1) | b as usize;
            }
            v.push(("high8", t));
        }
        let ls = (l.min(3)) as usize;
        let mut m = 1usize;
        let mut t = 0.0;
        for _ in 0..6 {
            t += c(self.probs.pos_slot[ls][m], 1);
            m = (m << 1) | 1;
        }
        v.push(("slot6", t));
        v.push(("direct26", 26.0));
        let mut m = 1usize;
        let mut t = 0.0;
        for _ in 0..4 {
            t += c(self.probs.align[m], 1);
            m = (m << 1) | 1;
        }
        v.push(("align4", t));
        v
    }

    /// Flush the range coder and return the bytes of this segment; the next
    /// segment starts with a fresh range coder (LZMA2 chunk boundary).
    /// Probabilities, state and reps are kept unless reset explicitly.
    pub fn finish_segment(&mut self) -> Vec<u8> {
        let v = self.rc.finish();
        self.rc = RangeEnc::new();
        v
    }
    /// LZMA2 state reset (optionally with new properties).
    pub fn reset_state(&mut self, new_props: Option<Props>) {
        let p = new_props.unwrap_or(self.probs.props);
        self.probs = Probs::new(p);
        self.state = 0;
        self.model.state_reset();
    }
    /// Bytes that were not range coded (LZMA2 uncompressed chunk) enter the
    /// history; `reset_dict` first forgets the history.
    pub fn raw_bytes(&mut self, data: &[u8], reset_dict: bool) {
        if reset_dict {
            self.model.dict_reset();
        }
        self.model.out.extend_from_slice(data);
    }
    pub fn dict_reset(&mut self) {
        self.model.dict_reset();
    }
}

// ------------------------------------------------------------------ reference decoder

#[derive(Clone, Debug, PartialEq, Eq)]
pub enum DecErr {
    /// the range decoder needed a byte beyond the end of the input
    InputExhausted,
    BadDistance(LzError),
    /// a copy would run past the size in effect
    Overshoot,
    /// end marker met although a size is in effect and not yet reached, or
    /// where no marker is allowed (LZMA2 chunk)
    UnexpectedMarker,
    /// after the marker: range coder not in its final state
    MarkerCodeNonZero,
    BadProps,
    BadHeader,
}

struct RangeDec<'a> {
    inp: &'a [u8],
    pos: usize,
    range: u32,
    code: u32,
}

impl<'a> RangeDec<'a> {
    fn new(inp: &'a [u8]) -> Result<RangeDec<'a>, DecErr> {
        if inp.len() < 5 {
            return Err(DecErr::InputExhausted);
        }
        let code = u32::from_be_bytes([inp[1], inp[2], inp[3], inp[4]]);
        Ok(RangeDec {
            inp,
            pos: 5,
            range: 0xFFFF_FFFF,
            code,
        })
    }
    #[inline]
    fn norm(&mut self) -> Result<(), DecErr> {
        if self.range < (1 << 24) {
            if self.pos >= self.inp.len() {
                return Err(DecErr::InputExhausted);
            }
            self.range <<= 8;
            self.code = (self.code << 8) | self.inp[self.pos] as u32;
            self.pos += 1;
        }
        Ok(())
    }
    #[inline]
    fn bit(&mut self, prob: &mut u16) -> Result<u32, DecErr> {
        let bound = (self.range >> 11) * (*prob as u32);
        let b;
        if self.code < bound {
            *prob += (2048 - *prob) >> 5;
            self.range = bound;
            b = 0;
        } else {
            *prob -= *prob >> 5;
            self.code -= bound;
            self.range -= bound;
            b = 1;
        }
        self.norm()?;
        Ok(b)
    }
    fn direct(&mut self, n: u32) -> Result<u32, DecErr> {
        let mut r = 0u32;
        for _ in 0..n {
            self.range >>= 1;
            let b = if self.code >= self.range {
                self.code -= self.range;
                1
            } else {
                0
            };
            self.norm()?;
            r = (r << 1) | b;
        }
        Ok(r)
    }
    fn tree(&mut self, probs: &mut [u16], nbits: u32) -> Result<u32, DecErr> {
        let mut m = 1usize;
        for _ in 0..nbits {
            m = (m << 1) | self.bit(&mut probs[m])? as usize;
        }
        Ok(m as u32 - (1 << nbits))
    }
    fn tree_rev(&mut self, probs: &mut [u16], offset: usize, nbits: u32) -> Result<u32, DecErr> {
        let mut m = 1usize;
        let mut r = 0u32;
        for i in 0..nbits {
            let b = self.bit(&mut probs[offset + m])?;
            m = (m << 1) | b as usize;
            r |= b << i;
        }
        Ok(r)
    }
}

pub struct RefDec {
    probs: Probs,
    pub state: usize,
    pub model: LzModel,
    pub trace: Vec<SymRec>,
    /// value of the code register after each traced symbol (parallel to `trace`)
    pub codes: Vec<u32>,
    pub keep_trace: bool,
}

#[derive(Clone, Debug, PartialEq, Eq)]
pub struct SegEnd {
    /// bytes of the segment the decoder consumed
    pub consumed: usize,
    pub saw_marker: bool,
    /// value of the code register at the end
    pub code: u32,
}

impl RefDec {
    pub fn new(props: Props, dict_size: u64) -> RefDec {
        RefDec {
            probs: Probs::new(props),
            state: 0,
            model: LzModel::new(dict_size),
            trace: Vec::new(),
            codes: Vec::new(),
            keep_trace: false,
        }
    }
    pub fn reset_state(&mut self, new_props: Option<Props>) {
        let p = new_props.unwrap_or(self.probs.props);
        self.probs = Probs::new(p);
        self.state = 0;
        self.model.state_reset();
    }
    pub fn props(&self) -> Props {
        self.probs.props
    }

    fn decode_len(rc: &mut RangeDec, lp: &mut LenProbs, pos_state: usize) -> Result<u32, DecErr> {
        if rc.bit(&mut lp.choice)? == 0 {
            rc.tree(&mut lp.low[pos_state], 3)
        } else if rc.bit(&mut lp.choice2)? == 0 {
            Ok(8 + rc.tree(&mut lp.mid[pos_state], 3)?)
        } else {
            Ok(16 + rc.tree(&mut lp.high, 8)?)
        }
    }

    /// Decode one range-coder segment. Stops when the model output reaches
    /// `target` total bytes (if given), at an end marker, or fails.
    /// `marker_allowed`: whether an end marker is legal in this segment.
    pub fn decode_segment(
        &mut self,
        inp: &[u8],
        target: Option<u64>,
        marker_allowed: bool,
    ) -> Result<SegEnd, DecErr> {
        let mut rc = RangeDec::new(inp)?;
        let p = self.probs.props;
        loop {
            if let Some(t) = target {
                if self.model.out.len() as u64 >= t {
                    break;
                }
            }
            let n = self.model.out.len();
            let pos = self.model.avail();
            let pos_state = pos & ((1usize << p.pb) - 1);
            let st = self.state;
            let im = (st << 4) + pos_state;
            if rc.bit(&mut self.probs.is_match[im])? == 0 {
                // literal
                let prev = if pos == 0 { 0u32 } else { self.model.out[n - 1] as u32 };
                let lit_state =
                    ((((pos as u32) & ((1 << p.lp) - 1)) << p.lc) + (prev >> (8 - p.lc))) as usize;
                let base = 0x300 * lit_state;
                let mut symbol = 1usize;
                if st >= 7 {
                    let d = self.model.reps[0] as u64 + 1;
                    if d > self.model.dict_size {
                        return Err(DecErr::BadDistance(LzError::BeyondDict));
                    }
                    if d > pos as u64 {
                        return Err(DecErr::BadDistance(LzError::BeyondOutput));
                    }
                    let mut match_byte = self.model.out[n - d as usize] as u32;
                    while symbol < 0x100 {
                        let match_bit = ((match_byte >> 7) & 1) as usize;
                        match_byte <<= 1;
                        let bit =
                            rc.bit(&mut self.probs.lit[base + ((1 + match_bit) << 8) + symbol])?;
                        symbol = (symbol << 1) | bit as usize;
                        if match_bit as u32 != bit {
                            break;
                        }
                    }
                }
                while symbol < 0x100 {
                    let bit = rc.bit(&mut self.probs.lit[base + symbol])?;
                    symbol = (symbol << 1) | bit as usize;
                }
                self.model.out.push((symbol - 0x100) as u8);
                self.state = state_after_lit(st);
                self.rec(&rc, 0, st);
                continue;
            }
            let len;
            let kind;
            if rc.bit(&mut self.probs.is_rep[st])? == 0 {
                // simple match
                let l = Self::decode_len(&mut rc, &mut self.probs.len, pos_state)?;
                let len_state = l.min(3) as usize;
                let slot = rc.tree(&mut self.probs.pos_slot[len_state], 6)?;
                let d = if slot < 4 {
                    slot
                } else {
                    let nd = (slot >> 1) - 1;
                    let base = (2 | (slot & 1)) << nd;
                    if slot < 14 {
                        base + rc.tree_rev(&mut self.probs.pos_special, (base - slot) as usize, nd)?
                    } else {
                        let hi = rc.direct(nd - 4)?;
                        base.wrapping_add(hi << 4)
                            .wrapping_add(rc.tree_rev(&mut self.probs.align, 0, 4)?)
                    }
                };
                self.state = state_after_match(st);
                if d == 0xFFFF_FFFF {
                    self.rec(&rc, 4, st);
                    if !marker_allowed {
                        return Err(DecErr::UnexpectedMarker);
                    }
                    if target.is_some() {
                        // a size is in effect and was not reached (loop guard)
                        return Err(DecErr::UnexpectedMarker);
                    }
                    if rc.code != 0 {
                        return Err(DecErr::MarkerCodeNonZero);
                    }
                    return Ok(SegEnd {
                        consumed: rc.pos,
                        saw_marker: true,
                        code: rc.code,
                    });
                }
                self.model.reps = [
                    d,
                    self.model.reps[0],
                    self.model.reps[1],
                    self.model.reps[2],
                ];
                len = l + 2;
                kind = 1;
            } else {
                if rc.bit(&mut self.probs.is_rep_g0[st])? == 0 {
                    if rc.bit(&mut self.probs.is_rep0_long[im])? == 0 {
                        self.state = state_after_shortrep(st);
                        let d = self.model.reps[0] as u64 + 1;
                        self.copy(d, 1, target)?;
                        self.rec(&rc, 2, st);
                        continue;
                    }
                } else {
                    let idx = if rc.bit(&mut self.probs.is_rep_g1[st])? == 0 {
                        1
                    } else if rc.bit(&mut self.probs.is_rep_g2[st])? == 0 {
                        2
                    } else {
                        3
                    };
                    let d = self.model.reps[idx];
                    for k in (0..idx).rev() {
                        self.model.reps[k + 1] = self.model.reps[k];
                    }
                    self.model.reps[0] = d;
                }
                len = Self::decode_len(&mut rc, &mut self.probs.rep_len, pos_state)? + 2;
                self.state = state_after_rep(st);
                kind = 3;
            }
            let d = self.model.reps[0] as u64 + 1;
            self.copy(d, len, target)?;
            self.rec(&rc, kind, st);
        }
        Ok(SegEnd {
            consumed: rc.pos,
            saw_marker: false,
            code: rc.code,
        })
    }

    fn rec(&mut self, rc: &RangeDec, kind: u8, st: usize) {
        if self.keep_trace {
            self.codes.push(rc.code);
            self.trace.push(SymRec {
                consumed: rc.pos as u32,
                produced: self.model.out.len() as u32,
                kind,
                state_before: st as u8,
            });
        }
    }

    fn copy(&mut self, d: u64, len: u32, target: Option<u64>) -> Result<(), DecErr> {
        if d > self.model.dict_size {
            return Err(DecErr::BadDistance(LzError::BeyondDict));
        }
        if d > self.model.avail() as u64 {
            return Err(DecErr::BadDistance(LzError::BeyondOutput));
        }
        if let Some(t) = target {
            if self.model.out.len() as u64 + len as u64 > t {
                return Err(DecErr::Overshoot);
            }
        }
        let d = d as usize;
        for _ in 0..len {
            let b = self.model.out[self.model.out.len() - d];
            self.model.out.push(b);
        }
        Ok(())
    }
}
