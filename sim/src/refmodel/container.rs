//! Containers around the LZMA payload: the .lzma header, LZMA2 chunk framing
//! and the .xz file format — a writer in which every field is individually
//! addressable and overridable, reference decoders, and the field-exact judge
//! used by C06.

use super::codec::{DecErr, Props, RefDec, RefEnc};
use super::crc::{crc32, crc64, sha256};

// ------------------------------------------------------------------ .lzma

/// 13-byte (size field present) or 5-byte header.
pub fn lzma_header(props: Props, dict: u32, size_field: Option<u64>) -> Vec<u8> {
    let mut v = vec![props.byte()];
    v.extend_from_slice(&dict.to_le_bytes());
    if let Some(s) = size_field {
        v.extend_from_slice(&s.to_le_bytes());
    }
    v
}

#[derive(Clone, Debug, PartialEq, Eq)]
pub enum RefVerdict {
    Ok,
    Err(String),
}

/// Reference .lzma decode. `header_has_size`: 13-byte header; `size`: the size
/// in effect (None = run to the end marker). Strict: after the marker nothing
/// may follow; with a size in effect decoding stops when it is reached.
/// Returns (output, bytes consumed).
pub fn ref_lzma_decode(
    data: &[u8],
    header_has_size: bool,
    size_override: Option<Option<u64>>,
) -> Result<(Vec<u8>, usize), String> {
    let hl = if header_has_size { 13 } else { 5 };
    if data.len() < hl {
        return Err("header too short".into());
    }
    let props = Props::from_byte(data[0]).ok_or("bad props")?;
    let dict = u32::from_le_bytes([data[1], data[2], data[3], data[4]]).max(4096);
    let mut size = None;
    if header_has_size {
        let mut b = [0u8; 8];
        b.copy_from_slice(&data[5..13]);
        let s = u64::from_le_bytes(b);
        if s != u64::MAX {
            size = Some(s);
        }
    }
    if let Some(o) = size_override {
        size = o;
    }
    let mut d = RefDec::new(props, dict as u64);
    let end = d
        .decode_segment(&data[hl..], size, true)
        .map_err(|e| format!("{:?}", e))?;
    if size.is_none() {
        if !end.saw_marker {
            return Err("no end marker".into());
        }
        if hl + end.consumed != data.len() {
            return Err("bytes after end marker".into());
        }
    }
    Ok((d.model.out, hl + end.consumed))
}

// ------------------------------------------------------------------ LZMA2 framing

#[derive(Clone, Debug)]
pub struct ChunkInfo {
    /// offset of the control byte in the LZMA2 stream
    pub off: usize,
    pub ctrl: u8,
    /// length of the chunk header (control byte, sizes, props)
    pub header_len: usize,
    /// payload bytes following the header
    pub payload_len: usize,
    pub unpacked_len: usize,
    /// for LZMA chunks: bytes the eager decoder needs for each symbol boundary is
    /// in the encoder trace; here the count of symbols in the chunk
    pub symbols: usize,
    /// index into the encoder trace of the first symbol of this chunk
    pub trace_start: usize,
}

/// Builds an LZMA2 stream chunk by chunk on top of the reference encoder.
pub struct Lzma2Writer {
    pub enc: RefEnc,
    pub bytes: Vec<u8>,
    pub chunks: Vec<ChunkInfo>,
    /// model output length at the start of the current chunk
    chunk_start_out: usize,
}

impl Lzma2Writer {
    pub fn new() -> Lzma2Writer {
        Lzma2Writer {
            enc: RefEnc::new(
                Props {
                    lc: 0,
                    lp: 0,
                    pb: 0,
                },
                u64::MAX,
            ),
            bytes: Vec::new(),
            chunks: Vec::new(),
            chunk_start_out: 0,
        }
    }
    pub fn out_len(&self) -> usize {
        self.enc.model.out.len()
    }
    /// Uncompressed chunk (1..=65536 bytes).
    pub fn raw_chunk(&mut self, reset_dict: bool, data: &[u8]) {
        assert!(!data.is_empty() && data.len() <= 0x10000);
        let off = self.bytes.len();
        let ctrl = if reset_dict { 1 } else { 2 };
        self.bytes.push(ctrl);
        self.bytes
            .extend_from_slice(&((data.len() - 1) as u16).to_be_bytes());
        self.bytes.extend_from_slice(data);
        self.enc.raw_bytes(data, reset_dict);
        self.chunks.push(ChunkInfo {
            off,
            ctrl,
            header_len: 3,
            payload_len: data.len(),
            unpacked_len: data.len(),
            symbols: 0,
            trace_start: self.enc.trace.len(),
        });
    }
    /// Start an LZMA chunk: apply the reset class (0 none, 1 state, 2 state +
    /// new props, 3 dictionary + state + new props). Symbols are then encoded
    /// through `self.enc` by the caller, followed by `end_lzma_chunk`.
    pub fn begin_lzma_chunk(&mut self, reset: u8, new_props: Option<Props>) {
        if reset == 3 {
            self.enc.dict_reset();
        }
        if reset >= 1 {
            self.enc
                .reset_state(if reset >= 2 { new_props } else { None });
        }
        self.chunk_start_out = self.enc.model.out.len();
    }
    /// Finish the chunk started by `begin_lzma_chunk`. Returns false (and
    /// emits nothing sensible) if the chunk is empty or exceeds the field widths.
    pub fn end_lzma_chunk(&mut self, reset: u8, trace_start: usize) -> bool {
        self.end_lzma_chunk_extra(reset, trace_start, 0)
    }
    /// As `end_lzma_chunk`, declaring `extra` more uncompressed bytes than the
    /// model produced (used when the chunk ends in an illegal symbol).
    pub fn end_lzma_chunk_extra(&mut self, reset: u8, trace_start: usize, extra: usize) -> bool {
        let unpacked = self.enc.model.out.len() - self.chunk_start_out + extra;
        let payload = self.enc.finish_segment();
        if unpacked == 0 || unpacked > (1 << 21) || payload.len() > (1 << 16) {
            return false;
        }
        let off = self.bytes.len();
        let u = (unpacked - 1) as u32;
        let ctrl = 0x80 | (reset << 5) | ((u >> 16) as u8 & 0x1F);
        self.bytes.push(ctrl);
        self.bytes.extend_from_slice(&((u & 0xFFFF) as u16).to_be_bytes());
        self.bytes
            .extend_from_slice(&((payload.len() - 1) as u16).to_be_bytes());
        let mut header_len = 5;
        if reset >= 2 {
            self.bytes.push(self.enc.props().byte());
            header_len = 6;
        }
        self.bytes.extend_from_slice(&payload);
        self.chunks.push(ChunkInfo {
            off,
            ctrl,
            header_len,
            payload_len: payload.len(),
            unpacked_len: unpacked,
            symbols: self.enc.trace.len() - trace_start,
            trace_start,
        });
        true
    }
    pub fn end(&mut self) {
        self.bytes.push(0);
    }
    /// The chunk begun last could not be framed (`end_lzma_chunk` returned false):
    /// forget the bytes it produced, so that the model's output is again what the
    /// framed chunks define. Nothing may be encoded after this.
    pub fn abandon_chunk(&mut self) {
        self.enc.model.out.truncate(self.chunk_start_out);
    }
}

/// Outcome of walking the LZMA2 chunk framing only (no range decoding).
#[derive(Clone, Debug)]
pub struct FramingWalk {
    pub consumed: usize,
    pub unpacked: u64,
}

/// Walk control bytes and size fields from `data[0..]` up to and including the
/// end byte. None if the framing cannot be walked (bad control byte, runs off
/// the end).
pub fn walk_lzma2_framing(data: &[u8]) -> Option<FramingWalk> {
    let mut pos = 0usize;
    let mut unpacked = 0u64;
    loop {
        let c = *data.get(pos)?;
        pos += 1;
        if c == 0 {
            return Some(FramingWalk {
                consumed: pos,
                unpacked,
            });
        } else if c == 1 || c == 2 {
            let n = u16::from_be_bytes([*data.get(pos)?, *data.get(pos + 1)?]) as usize + 1;
            pos += 2 + n;
            if pos > data.len() {
                return None;
            }
            unpacked += n as u64;
        } else if c >= 0x80 {
            let u = (((c & 0x1F) as u64) << 16)
                + u16::from_be_bytes([*data.get(pos)?, *data.get(pos + 1)?]) as u64
                + 1;
            let p = u16::from_be_bytes([*data.get(pos + 2)?, *data.get(pos + 3)?]) as usize + 1;
            pos += 4;
            if c >= 0xC0 {
                pos += 1;
            }
            pos += p;
            if pos > data.len() {
                return None;
            }
            unpacked += u;
        } else {
            return None;
        }
    }
}

#[derive(Clone, Debug, PartialEq, Eq)]
pub enum L2Reject {
    BadControl(u8),
    BadProps(u8),
    /// compressed payload needs more input than declared
    NeedsMoreInput,
    /// payload would produce more than the declared uncompressed size
    ProducesMore,
    /// the declared uncompressed size was reached before the declared
    /// compressed bytes were used up
    UnusedCompressedBytes(usize),
    UncompressedTruncated,
    MissingEnd,
    TruncatedHeader,
    BadDistance,
    Marker,
    /// an end-of-stream marker was met before the declared uncompressed size
    MarkerBeforeSize,
    /// first chunk does not reset the dictionary / props missing (only in strict mode)
    StrictOrder,
}

/// Reference LZMA2 decoder. In `strict` mode it additionally enforces the
/// ordering rules xz and the LZMA SDK enforce (first chunk resets the
/// dictionary; props must have been set before an LZMA chunk without props).
/// Returns (output, bytes consumed through the end byte).
pub fn ref_lzma2_decode(data: &[u8], strict: bool) -> Result<(Vec<u8>, usize), L2Reject> {
    let mut produced = 0usize;
    ref_lzma2_decode_partial(data, strict, &mut produced)
}

/// As `ref_lzma2_decode`; `produced` receives the number of bytes decoded
/// before the end or the failure.
pub fn ref_lzma2_decode_partial(
    data: &[u8],
    strict: bool,
    produced: &mut usize,
) -> Result<(Vec<u8>, usize), L2Reject> {
    let mut d = RefDec::new(
        Props {
            lc: 0,
            lp: 0,
            pb: 0,
        },
        u64::MAX,
    );
    let r = ref_lzma2_inner(data, strict, &mut d);
    *produced = d.model.out.len();
    r.map(|pos| (d.model.out, pos))
}

fn ref_lzma2_inner(data: &[u8], strict: bool, d: &mut RefDec) -> Result<usize, L2Reject> {
    let mut pos = 0usize;
    let mut need_dict_reset = true;
    let mut need_props = true;
    loop {
        let c = *data.get(pos).ok_or(L2Reject::MissingEnd)?;
        pos += 1;
        if c == 0 {
            return Ok(pos);
        }
        if c == 1 || c == 2 {
            if pos + 2 > data.len() {
                return Err(L2Reject::TruncatedHeader);
            }
            let n = u16::from_be_bytes([data[pos], data[pos + 1]]) as usize + 1;
            pos += 2;
            if strict && c == 2 && need_dict_reset {
                return Err(L2Reject::StrictOrder);
            }
            if c == 1 {
                d.model.dict_reset();
                need_dict_reset = false;
                // xz: a dictionary reset obliges the next LZMA chunk to set
                // new properties
                need_props = true;
            }
            if pos + n > data.len() {
                return Err(L2Reject::UncompressedTruncated);
            }
            d.model.out.extend_from_slice(&data[pos..pos + n]);
            pos += n;
            continue;
        }
        if c < 0x80 {
            return Err(L2Reject::BadControl(c));
        }
        if pos + 4 > data.len() {
            return Err(L2Reject::TruncatedHeader);
        }
        let u = (((c & 0x1F) as u64) << 16)
            + u16::from_be_bytes([data[pos], data[pos + 1]]) as u64
            + 1;
        let p = u16::from_be_bytes([data[pos + 2], data[pos + 3]]) as usize + 1;
        pos += 4;
        let reset = (c >> 5) & 3;
        if strict && reset != 3 && need_dict_reset {
            return Err(L2Reject::StrictOrder);
        }
        if strict && reset < 2 && need_props {
            return Err(L2Reject::StrictOrder);
        }
        if reset == 3 {
            d.model.dict_reset();
            need_dict_reset = false;
        }
        if reset >= 2 {
            let pbyte = *data.get(pos).ok_or(L2Reject::TruncatedHeader)?;
            pos += 1;
            let props = Props::from_byte(pbyte).ok_or(L2Reject::BadProps(pbyte))?;
            if props.lc + props.lp > 4 {
                return Err(L2Reject::BadProps(pbyte));
            }
            d.reset_state(Some(props));
            need_props = false;
        } else if reset == 1 {
            d.reset_state(None);
        }
        let avail = data.len() - pos;
        let payload = &data[pos..pos + p.min(avail)];
        let target = d.model.out.len() as u64 + u;
        match d.decode_segment(payload, Some(target), false) {
            Ok(end) => {
                if p > avail {
                    // the chunk decoded although part of its declared
                    // compressed bytes is missing from the input
                    return Err(L2Reject::NeedsMoreInput);
                }
                if end.consumed < p {
                    return Err(L2Reject::UnusedCompressedBytes(p - end.consumed));
                }
            }
            Err(DecErr::InputExhausted) => return Err(L2Reject::NeedsMoreInput),
            Err(DecErr::Overshoot) => return Err(L2Reject::ProducesMore),
            Err(DecErr::BadDistance(_)) => return Err(L2Reject::BadDistance),
            Err(DecErr::UnexpectedMarker) => return Err(L2Reject::MarkerBeforeSize),
            Err(_) => return Err(L2Reject::Marker),
        }
        pos += p;
    }
}

// ------------------------------------------------------------------ .xz writer

fn enc_int(plan: &XzPlan, field: &str, v: u64) -> Vec<u8> {
    if let Some((f, extra)) = &plan.ov_nonminimal {
        if f == field {
            return vli_nonminimal(v, *extra);
        }
    }
    match &plan.ov_overlong {
        Some((f, tenth)) if f == field => vli_overlong(v, *tenth),
        _ => vli(v),
    }
}

/// `v` spelt with `extra` more groups than needed (all zero), at most nine bytes in
/// all: the same value, not the shortest form.
pub fn vli_nonminimal(v: u64, extra: u8) -> Vec<u8> {
    let mut out = vli(v);
    let extra = (extra as usize).min(9 - out.len());
    for k in 0..extra {
        let n = out.len();
        out[n - 1] |= 0x80;
        out.push(if k + 1 == extra { 0x00 } else { 0x80 });
    }
    out
}

pub fn vli(mut v: u64) -> Vec<u8> {
    let mut out = Vec::new();
    loop {
        let b = (v & 0x7F) as u8;
        v >>= 7;
        if v == 0 {
            out.push(b);
            return out;
        }
        out.push(b | 0x80);
    }
}

/// The value `v` spelt in TEN bytes: nine groups with the continuation bit set and
/// a tenth byte `tenth` on top - one byte more than the format allows. Read as a
/// number it is v + tenth * 2^63, so for tenth >= 2 it differs from v by a multiple
/// of 2^64 (what a 64-bit shift silently drops).
pub fn vli_overlong(v: u64, tenth: u8) -> Vec<u8> {
    let mut out: Vec<u8> = (0..9).map(|i| (((v >> (7 * i)) & 0x7F) as u8) | 0x80).collect();
    out.push(tenth & 0x7F);
    out
}

/// Parse a VLI (up to 9 bytes, non-minimal encodings tolerated).
pub fn parse_vli(data: &[u8], pos: &mut usize) -> Option<u64> {
    let mut r = 0u64;
    for i in 0..9 {
        let b = *data.get(*pos)?;
        *pos += 1;
        r |= ((b & 0x7F) as u64) << (7 * i);
        if b & 0x80 == 0 {
            return Some(r);
        }
    }
    None
}

pub fn check_size(id: u8) -> usize {
    match id {
        0 => 0,
        1..=3 => 4,
        4..=6 => 8,
        7..=9 => 16,
        10..=12 => 32,
        _ => 64,
    }
}

pub fn check_value(id: u8, content: &[u8]) -> Vec<u8> {
    match id {
        0 => Vec::new(),
        1 => crc32(content).to_le_bytes().to_vec(),
        4 => crc64(content).to_le_bytes().to_vec(),
        10 => sha256(content).to_vec(),
        _ => {
            // unassigned IDs: any bytes of the right size; make them depend on
            // the content so that a decoder cannot guess them
            let mut v = Vec::new();
            let h = sha256(content);
            while v.len() < check_size(id) {
                v.extend_from_slice(&h);
            }
            v.truncate(check_size(id));
            v
        }
    }
}

#[derive(Clone, Debug, Default)]
pub struct BlockPlan {
    /// LZMA2 stream including its end byte
    pub payload: Vec<u8>,
    /// what the payload decodes to
    pub content: Vec<u8>,
    pub has_csize: bool,
    pub has_usize: bool,
    /// extra header padding in units of 4 bytes
    pub extra_pad4: u32,
    /// filter list; empty means the single LZMA2 filter [(0x21, [dict byte])]
    pub filters: Vec<(u64, Vec<u8>)>,
    /// OR-ed into the block flags (reserved bits)
    pub flags_or: u8,
    // overrides (None = correct value)
    pub ov_size_byte: Option<u8>,
    pub ov_csize: Option<u64>,
    pub ov_usize: Option<u64>,
    /// (index into header padding, value)
    pub ov_hpad: Option<(usize, u8)>,
    /// the "size of properties" field of the last filter says this instead of the
    /// number of property bytes that follow
    pub ov_props_size: Option<u64>,
    /// several header padding bytes at once: (offset into the padding, bytes)
    pub ov_hpads: Option<(usize, Vec<u8>)>,
    pub ov_hcrc: Option<u32>,
    /// replaces block padding bytes (any length)
    pub ov_bpad: Option<Vec<u8>>,
    pub ov_check: Option<Vec<u8>>,
}

#[derive(Clone, Debug, Default)]
pub struct XzPlan {
    pub check_id: u8,
    pub blocks: Vec<BlockPlan>,
    pub ov_magic: Option<[u8; 6]>,
    pub ov_hflags: Option<[u8; 2]>,
    pub ov_hcrc: Option<u32>,
    pub ov_index_count: Option<u64>,
    /// (field, tenth byte): write that integer over-long (ten bytes, see
    /// `vli_overlong`); fields: "index.count", "index.rec<i>.unpadded",
    /// "index.rec<i>.uncompressed", "block<i>.csize", "block<i>.usize"
    pub ov_overlong: Option<(String, u8)>,
    /// (field name, extra zero groups): that integer is written longer than needed
    /// (nine bytes at most) - same value, not the shortest form
    pub ov_nonminimal: Option<(String, u8)>,
    /// per record overrides: (record index, unpadded, uncompressed)
    pub ov_records: Vec<(usize, Option<u64>, Option<u64>)>,
    /// drop / add index records: the index lists this many records
    pub ov_index_records: Option<usize>,
    pub ov_index_pad: Option<Vec<u8>>,
    pub ov_index_crc: Option<u32>,
    pub ov_fcrc: Option<u32>,
    pub ov_backward: Option<u32>,
    pub ov_fflags: Option<[u8; 2]>,
    pub ov_fmagic: Option<[u8; 2]>,
    pub trailing: Vec<u8>,
}

#[derive(Clone, Debug)]
pub struct Field {
    pub name: String,
    pub off: usize,
    pub len: usize,
}

pub struct XzBuilt {
    pub bytes: Vec<u8>,
    pub fields: Vec<Field>,
    pub content: Vec<u8>,
}

pub fn build_xz(plan: &XzPlan) -> XzBuilt {
    let mut out: Vec<u8> = Vec::new();
    let mut fields: Vec<Field> = Vec::new();
    let mut content = Vec::new();
    let mut f = |name: String, off: usize, len: usize, fields: &mut Vec<Field>| {
        fields.push(Field { name, off, len });
    };
    // stream header
    let magic = plan.ov_magic.unwrap_or([0xFD, 0x37, 0x7A, 0x58, 0x5A, 0x00]);
    f("header.magic".into(), 0, 6, &mut fields);
    out.extend_from_slice(&magic);
    let hflags = plan.ov_hflags.unwrap_or([0, plan.check_id]);
    f("header.flags".into(), out.len(), 2, &mut fields);
    out.extend_from_slice(&hflags);
    let hcrc = plan.ov_hcrc.unwrap_or_else(|| crc32(&hflags));
    f("header.crc32".into(), out.len(), 4, &mut fields);
    out.extend_from_slice(&hcrc.to_le_bytes());
    let csz = check_size(plan.check_id);
    // blocks
    let mut records: Vec<(u64, u64)> = Vec::new();
    for (bi, b) in plan.blocks.iter().enumerate() {
        let start = out.len();
        let mut body: Vec<u8> = Vec::new(); // after the size byte, before padding
        let default_filters = vec![(0x21u64, vec![22u8])];
        let filters = if b.filters.is_empty() {
            &default_filters
        } else {
            &b.filters
        };
        let mut flags = ((filters.len().clamp(1, 4) - 1) as u8) | b.flags_or;
        if b.has_csize {
            flags |= 0x40;
        }
        if b.has_usize {
            flags |= 0x80;
        }
        body.push(flags);
        let mut rel: Vec<(String, usize, usize)> = vec![("flags".into(), 1, 1)];
        if b.has_csize {
            let v = enc_int(plan, &format!("block{}.csize", bi), b.ov_csize.unwrap_or(b.payload.len() as u64));
            rel.push(("csize".into(), 1 + body.len(), v.len()));
            body.extend_from_slice(&v);
        }
        if b.has_usize {
            let v = enc_int(plan, &format!("block{}.usize", bi), b.ov_usize.unwrap_or(b.content.len() as u64));
            rel.push(("usize".into(), 1 + body.len(), v.len()));
            body.extend_from_slice(&v);
        }
        for (fi, (id, props)) in filters.iter().enumerate() {
            let v = vli(*id);
            rel.push(("filter_id".into(), 1 + body.len(), v.len()));
            body.extend_from_slice(&v);
            let declared = match b.ov_props_size {
                Some(x) if fi + 1 == filters.len() => x,
                _ => props.len() as u64,
            };
            body.extend_from_slice(&vli(declared));
            rel.push(("filter_props".into(), 1 + body.len(), props.len()));
            body.extend_from_slice(props);
        }
        // header = size byte + body + padding + crc32, multiple of 4
        let unpadded = 1 + body.len() + 4;
        let mut total = (unpadded + 3) & !3;
        total += 4 * b.extra_pad4 as usize;
        let total = total.min(1024);
        let pad = total - unpadded;
        let mut hdr = vec![b.ov_size_byte.unwrap_or((total / 4 - 1) as u8)];
        hdr.extend_from_slice(&body);
        let pad_off = hdr.len();
        hdr.extend(std::iter::repeat(0u8).take(pad));
        if let Some((i, v)) = b.ov_hpad {
            if pad > 0 {
                hdr[pad_off + i % pad] = v;
            }
        }
        if let Some((at, vs)) = &b.ov_hpads {
            for (k, v) in vs.iter().enumerate() {
                if at + k < pad {
                    hdr[pad_off + at + k] = *v;
                }
            }
        }
        let hc = b.ov_hcrc.unwrap_or_else(|| crc32(&hdr));
        f(format!("block{}.size_byte", bi), start, 1, &mut fields);
        for (n, o, l) in rel {
            f(format!("block{}.{}", bi, n), start + o, l, &mut fields);
        }
        if pad > 0 {
            f(format!("block{}.header_pad", bi), start + pad_off, pad, &mut fields);
        }
        f(format!("block{}.header_crc32", bi), start + hdr.len(), 4, &mut fields);
        out.extend_from_slice(&hdr);
        out.extend_from_slice(&hc.to_le_bytes());
        let hdr_len = hdr.len() + 4;
        f(format!("block{}.payload", bi), out.len(), b.payload.len(), &mut fields);
        out.extend_from_slice(&b.payload);
        let padn = (4 - (hdr_len + b.payload.len()) % 4) % 4;
        let bpad = b.ov_bpad.clone().unwrap_or_else(|| vec![0u8; padn]);
        if !bpad.is_empty() {
            f(format!("block{}.pad", bi), out.len(), bpad.len(), &mut fields);
        }
        out.extend_from_slice(&bpad);
        let chk = b
            .ov_check
            .clone()
            .unwrap_or_else(|| check_value(plan.check_id, &b.content));
        if !chk.is_empty() {
            f(format!("block{}.check", bi), out.len(), chk.len(), &mut fields);
        }
        out.extend_from_slice(&chk);
        records.push(((hdr_len + b.payload.len() + csz) as u64, b.content.len() as u64));
        content.extend_from_slice(&b.content);
    }
    // index
    let istart = out.len();
    let mut idx = vec![0u8];
    if let Some(n) = plan.ov_index_records {
        while records.len() > n {
            records.pop();
        }
        while records.len() < n {
            records.push((records.last().copied().unwrap_or((12, 0)).0, 0));
        }
    }
    for (i, u, c) in &plan.ov_records {
        if let Some(r) = records.get_mut(*i) {
            if let Some(u) = u {
                r.0 = *u;
            }
            if let Some(c) = c {
                r.1 = *c;
            }
        }
    }
    let cnt = enc_int(plan, "index.count", plan.ov_index_count.unwrap_or(records.len() as u64));
    f("index.count".into(), istart + 1, cnt.len(), &mut fields);
    idx.extend_from_slice(&cnt);
    for (i, (u, c)) in records.iter().enumerate() {
        let a = enc_int(plan, &format!("index.rec{}.unpadded", i), *u);
        f(format!("index.rec{}.unpadded", i), istart + idx.len(), a.len(), &mut fields);
        idx.extend_from_slice(&a);
        let b = enc_int(plan, &format!("index.rec{}.uncompressed", i), *c);
        f(format!("index.rec{}.uncompressed", i), istart + idx.len(), b.len(), &mut fields);
        idx.extend_from_slice(&b);
    }
    let ipadn = (4 - idx.len() % 4) % 4;
    let ipad = plan.ov_index_pad.clone().unwrap_or_else(|| vec![0u8; ipadn]);
    if !ipad.is_empty() {
        f("index.pad".into(), istart + idx.len(), ipad.len(), &mut fields);
    }
    idx.extend_from_slice(&ipad);
    let icrc = plan.ov_index_crc.unwrap_or_else(|| crc32(&idx));
    f("index.crc32".into(), istart + idx.len(), 4, &mut fields);
    idx.extend_from_slice(&icrc.to_le_bytes());
    out.extend_from_slice(&idx);
    // footer
    let backward = plan
        .ov_backward
        .unwrap_or_else(|| ((idx.len() / 4).wrapping_sub(1)) as u32);
    let fflags = plan.ov_fflags.unwrap_or(hflags);
    let mut fb = backward.to_le_bytes().to_vec();
    fb.extend_from_slice(&fflags);
    let fcrc = plan.ov_fcrc.unwrap_or_else(|| crc32(&fb));
    f("footer.crc32".into(), out.len(), 4, &mut fields);
    out.extend_from_slice(&fcrc.to_le_bytes());
    f("footer.backward".into(), out.len(), 4, &mut fields);
    f("footer.flags".into(), out.len() + 4, 2, &mut fields);
    out.extend_from_slice(&fb);
    f("footer.magic".into(), out.len(), 2, &mut fields);
    out.extend_from_slice(&plan.ov_fmagic.unwrap_or([0x59, 0x5A]));
    if !plan.trailing.is_empty() {
        f("trailing".into(), out.len(), plan.trailing.len(), &mut fields);
        out.extend_from_slice(&plan.trailing);
    }
    XzBuilt {
        bytes: out,
        fields,
        content,
    }
}

// ------------------------------------------------------------------ field-exact judge (C06)

#[derive(Clone, Debug, PartialEq, Eq)]
pub enum Judge {
    /// every listed integrity field agrees with the delivered data
    Agree,
    /// a listed field disagrees: (field, detail)
    Disagree(String, String),
    /// the judge cannot walk the file (not C06's business)
    Unjudged(String),
}

/// Decide whether every integrity field C06 lists agrees with `delivered`
/// (the bytes lzma-rs handed to the sink). Strict about exactly those fields
/// and nothing else; does no range decoding.
pub fn judge_xz(file: &[u8], delivered: &[u8]) -> Judge {
    let dis = |f: &str, d: String| Judge::Disagree(f.to_string(), d);
    if file.len() < 12 {
        return dis("header", "file shorter than a stream header".into());
    }
    if file[0..6] != [0xFD, 0x37, 0x7A, 0x58, 0x5A, 0x00] {
        return dis("header.magic", "bad magic".into());
    }
    let hflags = [file[6], file[7]];
    if crc32(&hflags) != u32::from_le_bytes([file[8], file[9], file[10], file[11]]) {
        return dis("header.crc32", "stream header CRC32 mismatch".into());
    }
    let check_id = hflags[1] & 0x0F;
    let csz = check_size(check_id);
    let mut pos = 12usize;
    let mut dpos = 0usize;
    let mut records: Vec<(u64, u64)> = Vec::new();
    loop {
        let b = match file.get(pos) {
            Some(b) => *b,
            None => return dis("truncated", "file ends where a block or the index must start".into()),
        };
        if b == 0 {
            break;
        }
        let hsize = (b as usize + 1) * 4;
        if pos + hsize > file.len() {
            return dis("truncated", "block header runs off the file".into());
        }
        let hdr = &file[pos..pos + hsize];
        let stored = u32::from_le_bytes([
            hdr[hsize - 4],
            hdr[hsize - 3],
            hdr[hsize - 2],
            hdr[hsize - 1],
        ]);
        if crc32(&hdr[..hsize - 4]) != stored {
            return dis("block.header_crc32", "block header CRC32 mismatch".into());
        }
        let flags = hdr[1];
        let mut p = 2usize;
        let body = &hdr[..hsize - 4];
        let mut csize = None;
        let mut usize_ = None;
        if flags & 0x40 != 0 {
            csize = match parse_vli(body, &mut p) {
                Some(v) => Some(v),
                None => return dis("block.csize", "the declared compressed size is not an integer of at most nine bytes (63 bits)".into()),
            };
        }
        if flags & 0x80 != 0 {
            usize_ = match parse_vli(body, &mut p) {
                Some(v) => Some(v),
                None => return dis("block.usize", "the declared uncompressed size is not an integer of at most nine bytes (63 bits)".into()),
            };
        }
        for _ in 0..((flags & 3) + 1) {
            let id = match parse_vli(body, &mut p) {
                Some(v) => v,
                None => return Judge::Unjudged("block header: bad filter VLI".into()),
            };
            let n = match parse_vli(body, &mut p) {
                Some(v) => v as usize,
                None => return Judge::Unjudged("block header: bad filter VLI".into()),
            };
            if id == 0x21 && n != 1 {
                // an LZMA2 filter has exactly one property byte: any further "property"
                // would be taken from what has to be zero padding
                return dis("block.filter_props_size", format!("LZMA2 filter declares {} property bytes", n));
            }
            if p + n > body.len() {
                return Judge::Unjudged("block header: filter props run off".into());
            }
            p += n;
        }
        if body[p..].iter().any(|x| *x != 0) {
            return dis("block.header_pad", "non-zero block header padding".into());
        }
        let data_start = pos + hsize;
        let walk = match walk_lzma2_framing(&file[data_start..]) {
            Some(w) => w,
            None => return Judge::Unjudged("LZMA2 framing cannot be walked".into()),
        };
        if let Some(c) = csize {
            if c != walk.consumed as u64 {
                return dis(
                    "block.csize",
                    format!("declared compressed size {} but framing has {}", c, walk.consumed),
                );
            }
        }
        if let Some(u) = usize_ {
            if u != walk.unpacked {
                return dis(
                    "block.usize",
                    format!("declared uncompressed size {} but framing has {}", u, walk.unpacked),
                );
            }
        }
        let mut q = data_start + walk.consumed;
        let padn = (4 - (hsize + walk.consumed) % 4) % 4;
        if q + padn + csz > file.len() {
            return dis("truncated", "block padding/check runs off the file".into());
        }
        if file[q..q + padn].iter().any(|x| *x != 0) {
            return dis("block.pad", "non-zero block padding".into());
        }
        q += padn;
        let dend = dpos + walk.unpacked as usize;
        if dend > delivered.len() {
            return Judge::Unjudged("delivered data shorter than the framing says".into());
        }
        let slice = &delivered[dpos..dend];
        let stored_check = &file[q..q + csz];
        match check_id {
            0 => {}
            1 => {
                if crc32(slice).to_le_bytes() != stored_check {
                    return dis("block.check", "CRC32 of delivered data mismatch".into());
                }
            }
            4 => {
                if crc64(slice).to_le_bytes() != stored_check {
                    return dis("block.check", "CRC64 of delivered data mismatch".into());
                }
            }
            10 => {
                if sha256(slice) != stored_check {
                    return dis("block.check", "SHA-256 of delivered data mismatch".into());
                }
            }
            _ => return Judge::Unjudged("unassigned check id".into()),
        }
        q += csz;
        records.push(((hsize + walk.consumed + csz) as u64, walk.unpacked));
        dpos = dend;
        pos = q;
    }
    if dpos != delivered.len() {
        return Judge::Unjudged("delivered data longer than the framing says".into());
    }
    // index
    let istart = pos;
    let mut p = pos + 1;
    let n = match parse_vli(file, &mut p) {
        Some(v) => v,
        None => return dis("index.count", "bad VLI".into()),
    };
    if n != records.len() as u64 {
        return dis(
            "index.count",
            format!("index lists {} records, file has {} blocks", n, records.len()),
        );
    }
    for (i, r) in records.iter().enumerate() {
        let u = parse_vli(file, &mut p);
        let c = parse_vli(file, &mut p);
        if u != Some(r.0) {
            return dis("index.unpadded", format!("record {}: {:?} vs {}", i, u, r.0));
        }
        if c != Some(r.1) {
            return dis("index.uncompressed", format!("record {}: {:?} vs {}", i, c, r.1));
        }
    }
    let ipad = (4 - (p - istart) % 4) % 4;
    if p + ipad + 4 > file.len() {
        return dis("truncated", "index runs off the file".into());
    }
    if file[p..p + ipad].iter().any(|x| *x != 0) {
        return dis("index.pad", "non-zero index padding".into());
    }
    p += ipad;
    if crc32(&file[istart..p]) != u32::from_le_bytes([file[p], file[p + 1], file[p + 2], file[p + 3]]) {
        return dis("index.crc32", "index CRC32 mismatch".into());
    }
    p += 4;
    let index_size = (p - istart) as u64;
    // footer
    if p + 12 > file.len() {
        return dis("truncated", "footer runs off the file".into());
    }
    let ft = &file[p..p + 12];
    if crc32(&ft[4..10]) != u32::from_le_bytes([ft[0], ft[1], ft[2], ft[3]]) {
        return dis("footer.crc32", "footer CRC32 mismatch".into());
    }
    let backward = u32::from_le_bytes([ft[4], ft[5], ft[6], ft[7]]) as u64;
    if (backward + 1) * 4 != index_size {
        return dis(
            "footer.backward",
            format!("backward size field {} means {} bytes, index has {}", backward, (backward + 1) * 4, index_size),
        );
    }
    if [ft[8], ft[9]] != hflags {
        return dis("footer.flags", "footer flags differ from header flags".into());
    }
    if ft[10..12] != [0x59, 0x5A] {
        return dis("footer.magic", "bad footer magic".into());
    }
    // what follows the footer is judged only as far as it is zero padding: stream
    // padding is a multiple of four zero bytes (other trailing data: C11, C18)
    let rest = &file[p + 12..];
    if !rest.is_empty() && rest.iter().all(|x| *x == 0) && rest.len() % 4 != 0 {
        return dis("stream_padding", format!("{} zero bytes after the footer: stream padding is a multiple of four", rest.len()));
    }
    Judge::Agree
}

/// Strict reference .xz decoder (single stream, filters: LZMA2 only): used as
/// the independent conforming decoder for what lzma-rs *writes* (C04).
pub fn ref_xz_decode(file: &[u8]) -> Result<Vec<u8>, String> {
    if file.len() < 12 || file[0..6] != [0xFD, 0x37, 0x7A, 0x58, 0x5A, 0x00] {
        return Err("bad stream header".into());
    }
    if file[6] != 0 || file[7] > 0x0F {
        return Err("bad stream flags".into());
    }
    if crc32(&file[6..8]) != u32::from_le_bytes([file[8], file[9], file[10], file[11]]) {
        return Err("stream header crc".into());
    }
    let check_id = file[7];
    let csz = check_size(check_id);
    let mut pos = 12;
    let mut out = Vec::new();
    let mut records = Vec::new();
    loop {
        let b = *file.get(pos).ok_or("truncated")?;
        if b == 0 {
            break;
        }
        let hsize = (b as usize + 1) * 4;
        let hdr = file.get(pos..pos + hsize).ok_or("truncated header")?;
        if crc32(&hdr[..hsize - 4])
            != u32::from_le_bytes([hdr[hsize - 4], hdr[hsize - 3], hdr[hsize - 2], hdr[hsize - 1]])
        {
            return Err("block header crc".into());
        }
        let flags = hdr[1];
        if flags & 0x3C != 0 {
            return Err("reserved block flags".into());
        }
        let body = &hdr[..hsize - 4];
        let mut p = 2;
        let csize = if flags & 0x40 != 0 {
            Some(parse_vli(body, &mut p).ok_or("vli")?)
        } else {
            None
        };
        let usz = if flags & 0x80 != 0 {
            Some(parse_vli(body, &mut p).ok_or("vli")?)
        } else {
            None
        };
        if flags & 3 != 0 {
            return Err("more than one filter".into());
        }
        let id = parse_vli(body, &mut p).ok_or("vli")?;
        let n = parse_vli(body, &mut p).ok_or("vli")? as usize;
        if id != 0x21 || n != 1 {
            return Err("filter is not LZMA2".into());
        }
        p += 1;
        if p > body.len() || body[p..].iter().any(|x| *x != 0) {
            return Err("header padding".into());
        }
        let ds = pos + hsize;
        let (content, used) =
            ref_lzma2_decode(&file[ds..], true).map_err(|e| format!("lzma2: {:?}", e))?;
        if let Some(c) = csize {
            if c != used as u64 {
                return Err("compressed size mismatch".into());
            }
        }
        if let Some(u) = usz {
            if u != content.len() as u64 {
                return Err("uncompressed size mismatch".into());
            }
        }
        let mut q = ds + used;
        let padn = (4 - (hsize + used) % 4) % 4;
        let pad = file.get(q..q + padn).ok_or("truncated pad")?;
        if pad.iter().any(|x| *x != 0) {
            return Err("block padding".into());
        }
        q += padn;
        let chk = file.get(q..q + csz).ok_or("truncated check")?;
        if chk != check_value(check_id, &content).as_slice() {
            return Err("check mismatch".into());
        }
        q += csz;
        records.push(((hsize + used + csz) as u64, content.len() as u64));
        out.extend_from_slice(&content);
        pos = q;
    }
    match judge_index_footer(file, pos, &records) {
        Ok(end) => {
            if end != file.len() {
                return Err("trailing data".into());
            }
            Ok(out)
        }
        Err(e) => Err(e),
    }
}

fn judge_index_footer(file: &[u8], istart: usize, records: &[(u64, u64)]) -> Result<usize, String> {
    let mut p = istart + 1;
    let n = parse_vli(file, &mut p).ok_or("index vli")?;
    if n != records.len() as u64 {
        return Err("index count".into());
    }
    for r in records {
        if parse_vli(file, &mut p) != Some(r.0) || parse_vli(file, &mut p) != Some(r.1) {
            return Err("index record".into());
        }
    }
    let ipad = (4 - (p - istart) % 4) % 4;
    let pad = file.get(p..p + ipad).ok_or("truncated index")?;
    if pad.iter().any(|x| *x != 0) {
        return Err("index padding".into());
    }
    p += ipad;
    let c = file.get(p..p + 4).ok_or("truncated index crc")?;
    if crc32(&file[istart..p]) != u32::from_le_bytes([c[0], c[1], c[2], c[3]]) {
        return Err("index crc".into());
    }
    p += 4;
    let isz = (p - istart) as u64;
    let ft = file.get(p..p + 12).ok_or("truncated footer")?;
    if crc32(&ft[4..10]) != u32::from_le_bytes([ft[0], ft[1], ft[2], ft[3]]) {
        return Err("footer crc".into());
    }
    if (u32::from_le_bytes([ft[4], ft[5], ft[6], ft[7]]) as u64 + 1) * 4 != isz {
        return Err("backward size".into());
    }
    if ft[8..10] != file[6..8] {
        return Err("footer flags".into());
    }
    if ft[10..12] != [0x59, 0x5A] {
        return Err("footer magic".into());
    }
    Ok(p + 12)
}

/// Wrap an LZMA2 stream into a minimal single-block .xz (check None) so that
/// liblzma can decode it (self-test only).
pub fn wrap_lzma2_in_xz(payload: &[u8], content: &[u8], check_id: u8) -> Vec<u8> {
    let plan = XzPlan {
        check_id,
        blocks: vec![BlockPlan {
            payload: payload.to_vec(),
            content: content.to_vec(),
            // dictionary size byte 40 = 4 GiB - 1, so liblzma accepts any distance
            filters: vec![(0x21, vec![40])],
            ..Default::default()
        }],
        ..Default::default()
    };
    build_xz(&plan).bytes
}

pub fn new_ref_enc_lzma(props: Props, dict: u32) -> RefEnc {
    RefEnc::new(props, (dict as u64).max(4096))
}
