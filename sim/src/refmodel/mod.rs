//! The oracle's trusted base: never under test.
pub mod codec;
pub mod container;
pub mod crc;
pub mod lz;
