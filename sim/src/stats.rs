//! Per-run measurements, merged across workers and written out as evidence.

use crate::json::Json;
use crate::scenario::Scenario;
use std::collections::{BTreeMap, HashSet};

#[derive(Default)]
pub struct Stats {
    pub counters: BTreeMap<&'static str, u64>,
    pub maxima: BTreeMap<&'static str, u64>,
    pub evaluations: u64,
    pub nontrivial: u64,
    pub distinct: HashSet<u64>,
    pub events: u64,
    pub samples: Vec<(u64, Scenario)>,
    pub observations: BTreeMap<String, u64>,
    /// when > 0 only ids whose low `sample_shift` bits are zero are kept
    /// (very long runs): the count is then a lower bound
    pub sample_shift: u32,
}

/// beyond this many ids the distinct set switches to 1-in-16 sampling
const DISTINCT_CAP: usize = 12_000_000;

impl Stats {
    pub fn new() -> Stats {
        Stats::default()
    }
    #[inline]
    pub fn hit(&mut self, k: &'static str) {
        *self.counters.entry(k).or_insert(0) += 1;
    }
    #[inline]
    pub fn add(&mut self, k: &'static str, n: u64) {
        if n > 0 {
            *self.counters.entry(k).or_insert(0) += n;
        } else {
            self.counters.entry(k).or_insert(0);
        }
    }
    #[inline]
    pub fn max(&mut self, k: &'static str, v: u64) {
        let e = self.maxima.entry(k).or_insert(0);
        if v > *e {
            *e = v;
        }
    }
    /// Record one evaluation. `id` identifies the case (scenario hash mixed with
    /// the event-log hash); `nontrivial` by the property's stated rule.
    #[inline]
    pub fn eval(&mut self, id: u64, nontrivial: bool, events: u64) {
        self.evaluations += 1;
        self.events += events;
        if nontrivial {
            self.nontrivial += 1;
            if self.sample_shift == 0 || id & ((1u64 << self.sample_shift) - 1) == 0 {
                self.distinct.insert(id);
                if self.distinct.len() > DISTINCT_CAP {
                    self.thin();
                }
            }
        }
    }
    /// Keep a few sample scenarios (the ones with the smallest run index, so the
    /// selection does not depend on thread timing).
    pub fn sample(&mut self, run_index: u64, sc: &Scenario) {
        const KEEP: usize = 3;
        if self.samples.len() < KEEP {
            self.samples.push((run_index, sc.clone()));
            self.samples.sort_by_key(|x| x.0);
        } else if run_index < self.samples[KEEP - 1].0 {
            self.samples[KEEP - 1] = (run_index, sc.clone());
            self.samples.sort_by_key(|x| x.0);
        }
    }
    pub fn wants_sample(&self, run_index: u64) -> bool {
        self.samples.len() < 3 || run_index < self.samples[2].0
    }
    pub fn observe(&mut self, what: &str) {
        *self.observations.entry(what.to_string()).or_insert(0) += 1;
    }

    /// Halve the memory of the distinct set by keeping one hash class in 16.
    fn thin(&mut self) {
        self.sample_shift += 4;
        let mask = (1u64 << self.sample_shift) - 1;
        self.distinct.retain(|x| x & mask == 0);
        self.distinct.shrink_to_fit();
    }

    pub fn merge(&mut self, mut o: Stats) {
        // bring both sides to the same sampling rate first
        while self.sample_shift < o.sample_shift {
            self.thin();
        }
        while o.sample_shift < self.sample_shift {
            o.thin();
        }
        for (k, v) in o.counters {
            *self.counters.entry(k).or_insert(0) += v;
        }
        for (k, v) in o.maxima {
            let e = self.maxima.entry(k).or_insert(0);
            if v > *e {
                *e = v;
            }
        }
        self.evaluations += o.evaluations;
        self.nontrivial += o.nontrivial;
        self.events += o.events;
        for h in o.distinct {
            self.distinct.insert(h);
        }
        if self.distinct.len() > DISTINCT_CAP {
            self.thin();
        }
        for (i, s) in o.samples {
            self.sample(i, &s);
        }
        for (k, v) in o.observations {
            *self.observations.entry(k).or_insert(0) += v;
        }
    }

    /// Counters whose name starts with `prefix.`, as an object keyed by the rest.
    pub fn group(&self, prefix: &str) -> Json {
        let mut o = Json::obj();
        let p = format!("{}.", prefix);
        for (k, v) in &self.counters {
            if let Some(rest) = k.strip_prefix(p.as_str()) {
                o.set(rest, Json::Int(*v as i128));
            }
        }
        o
    }
    pub fn maxima_json(&self) -> Json {
        let mut o = Json::obj();
        for (k, v) in &self.maxima {
            o.set(k, Json::Int(*v as i128));
        }
        o
    }
}
