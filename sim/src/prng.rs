//! Own PRNG (SplitMix64 seeding xoshiro256**) and the choice tape.
//!
//! Every random decision of a run is drawn through a `Tape`. In random mode the
//! tape records the (already reduced) value of each draw; in replay mode the
//! recorded values are fed back (clamped to the bound in force, 0 once the tape
//! is exhausted). Value 0 always means "simplest", so the shrinker can delete,
//! zero or lower tape entries and still obtain a well-formed scenario.

#[inline]
pub fn splitmix64(state: &mut u64) -> u64 {
    *state = state.wrapping_add(0x9E37_79B9_7F4A_7C15);
    let mut z = *state;
    z = (z ^ (z >> 30)).wrapping_mul(0xBF58_476D_1CE4_E5B9);
    z = (z ^ (z >> 27)).wrapping_mul(0x94D0_49BB_1331_11EB);
    z ^ (z >> 31)
}

/// Mix several integers into one seed (pure function, no global state).
pub fn mix(parts: &[u64]) -> u64 {
    let mut s = 0x243F_6A88_85A3_08D3u64;
    let mut acc = 0u64;
    for p in parts {
        s ^= *p;
        acc = acc.rotate_left(17) ^ splitmix64(&mut s);
    }
    splitmix64(&mut (acc ^ s))
}

#[derive(Clone, Debug)]
pub struct Xoshiro {
    s: [u64; 4],
}

impl Xoshiro {
    pub fn new(seed: u64) -> Self {
        let mut st = seed;
        let s = [
            splitmix64(&mut st),
            splitmix64(&mut st),
            splitmix64(&mut st),
            splitmix64(&mut st),
        ];
        Xoshiro { s }
    }
    #[inline]
    pub fn next(&mut self) -> u64 {
        let result = self.s[1].wrapping_mul(5).rotate_left(7).wrapping_mul(9);
        let t = self.s[1] << 17;
        self.s[2] ^= self.s[0];
        self.s[3] ^= self.s[1];
        self.s[1] ^= self.s[2];
        self.s[0] ^= self.s[3];
        self.s[2] ^= t;
        self.s[3] = self.s[3].rotate_left(45);
        result
    }
}

/// FNV-style running hash used for event logs and scenario identity.
#[derive(Clone, Copy, Debug)]
pub struct Hash64(pub u64);

impl Hash64 {
    pub fn new() -> Self {
        Hash64(0xcbf2_9ce4_8422_2325)
    }
    #[inline]
    pub fn u(&mut self, v: u64) {
        let mut x = self.0 ^ v;
        x = x.wrapping_mul(0x0000_0100_0000_01B3);
        x ^= x >> 29;
        x = x.wrapping_mul(0x9E37_79B9_7F4A_7C15);
        x ^= x >> 32;
        self.0 = x;
    }
    pub fn bytes(&mut self, b: &[u8]) {
        self.u(b.len() as u64);
        let mut chunks = b.chunks_exact(8);
        for c in &mut chunks {
            self.u(u64::from_le_bytes([c[0], c[1], c[2], c[3], c[4], c[5], c[6], c[7]]));
        }
        let mut last = 0u64;
        for (i, x) in chunks.remainder().iter().enumerate() {
            last |= (*x as u64) << (8 * i);
        }
        self.u(last);
    }
    pub fn str(&mut self, s: &str) {
        self.bytes(s.as_bytes());
    }
    pub fn get(&self) -> u64 {
        self.0
    }
}

#[derive(Clone, Debug)]
pub struct Tape {
    pub data: Vec<u64>,
    pos: usize,
    rng: Option<Xoshiro>,
}

impl Tape {
    pub fn random(seed: u64) -> Tape {
        Tape {
            data: Vec::new(),
            pos: 0,
            rng: Some(Xoshiro::new(seed)),
        }
    }
    pub fn replay(data: Vec<u64>) -> Tape {
        Tape {
            data,
            pos: 0,
            rng: None,
        }
    }
    /// Number of choices consumed so far.
    pub fn used(&self) -> usize {
        self.pos
    }
    /// The recorded (or replayed and actually used) prefix of the tape.
    pub fn recorded(&self) -> Vec<u64> {
        let mut v = self.data.clone();
        v.truncate(self.pos.max(0));
        v
    }

    /// Uniform draw in `[0, bound)`; `bound == 0` is treated as 1.
    #[inline]
    pub fn below(&mut self, bound: u64) -> u64 {
        let bound = bound.max(1);
        let v = match &mut self.rng {
            Some(r) => {
                let v = if bound == 1 { 0 } else { r.next() % bound };
                self.data.push(v);
                v
            }
            None => {
                if self.pos < self.data.len() {
                    let raw = self.data[self.pos];
                    if raw >= bound {
                        bound - 1
                    } else {
                        raw
                    }
                } else {
                    0
                }
            }
        };
        self.pos += 1;
        v
    }
    /// Inclusive range.
    #[inline]
    pub fn range(&mut self, lo: u64, hi: u64) -> u64 {
        debug_assert!(lo <= hi);
        lo + self.below(hi - lo + 1)
    }
    /// True with probability num/den. `false` is the simple value.
    #[inline]
    pub fn chance(&mut self, num: u64, den: u64) -> bool {
        // drawn so that recorded 0 == false
        let v = self.below(den);
        v >= den - num.min(den) && num > 0
    }
    /// Index according to weights; index 0 is the simple value.
    pub fn weighted(&mut self, w: &[u32]) -> usize {
        let total: u64 = w.iter().map(|x| *x as u64).sum();
        if total == 0 {
            return 0;
        }
        let mut v = self.below(total);
        for (i, x) in w.iter().enumerate() {
            if v < *x as u64 {
                return i;
            }
            v -= *x as u64;
        }
        w.len() - 1
    }
    pub fn pick<T: Copy>(&mut self, xs: &[T]) -> T {
        xs[self.below(xs.len() as u64) as usize]
    }
    /// Full-width value (not reduced); 0 is the simple value.
    pub fn u64(&mut self) -> u64 {
        let v = match &mut self.rng {
            Some(r) => {
                let v = r.next();
                self.data.push(v);
                v
            }
            None => {
                if self.pos < self.data.len() {
                    self.data[self.pos]
                } else {
                    0
                }
            }
        };
        self.pos += 1;
        v
    }
    pub fn byte(&mut self) -> u8 {
        self.below(256) as u8
    }
}
