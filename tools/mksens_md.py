#!/usr/bin/env python3
"""Turns SENSITIVITY.table.txt (written by tools/sensitivity.sh with SENS_OUT) into
SENSITIVITY.md, adding what each change is and what it needs to manifest."""
import json, os, re, glob
V = os.path.dirname(os.path.dirname(os.path.abspath(__file__)))
suite_of = {}
sp = os.path.join(V, "SENSITIVITY.suite.txt")
if os.path.exists(sp):
    for l in open(sp):
        a = l.split()
        if len(a) == 2:
            suite_of[a[0]] = a[1]
rows = []
for l in open(os.path.join(V, "SENSITIVITY.table.txt")):
    if l.startswith("change ") or not l.strip():
        continue
    parts = l.split()
    name, suite, checks = parts[0], parts[1], parts[2:]
    if suite == "-":
        # the pinned suite was run once per change (SENSITIVITY.suite.txt; for seeded changes
        # also in their meta.json, where every one of them passes it by construction)
        suite = suite_of.get(name, "passes" if name.startswith("seeded/") else "-")
    rows.append((name, suite, checks))
def what(name):
    if name.startswith("seeded/"):
        m = json.load(open(os.path.join(V, name, "meta.json")))
        w = m["needs_to_manifest"]
        if m.get("note"):
            w += " — " + m["note"]
        return m["property"], w, m.get("why_not_detected", "")
    p = os.path.join(V, "mutants", name + ".patch")
    props, w = "", ""
    for l in open(p):
        if l.startswith("# props:"): props = l[8:].strip()
        if l.startswith("# what:"): w = l[7:].strip()
    return props, w, ""
out = []
out.append("# Sensitivity: which checks notice which changes\n")
out.append("Produced by `SENS_OUT=SENSITIVITY.table.txt tools/sensitivity.sh` followed by `tools/mksens_md.py` (the pinned-suite column comes from one earlier `SENS_SUITE=1` run per change, kept in `SENSITIVITY.suite.txt`).")
out.append("Every change is applied to a scratch worktree of `/repo` (never to `/repo` itself); `lzsim` is rebuilt against it and the")
out.append("**quick** tier of the listed checks is run with the default seed. `id:1(class)` = the check exited 1 with a violation of that")
out.append("class (a replay file was written and re-executed successfully); `id:0` = the check did not notice. `suite` = whether the")
out.append("repository's 59 pinned tests notice the change (`passes` = they do not).\n")
for title, pred in (("Independently seeded changes (`seeded/`, written by sub-agents from the property text alone)", lambda n: n.startswith("seeded/")),
                    ("Hand-written single-site mutants (`mutants/`)", lambda n: not n.startswith("seeded/"))):
    sel = [r for r in rows if pred(r[0])]
    if not sel: continue
    det = sum(1 for r in sel if any(re.match(r"C\d+:1", c) for c in r[2]))
    own = 0
    out.append("## %s\n" % title)
    out.append("%d changes, %d noticed by at least one of the listed checks.\n" % (len(sel), det))
    out.append("| change | breaks | pinned suite | checks (quick tier) | what it is / needs in order to manifest |")
    out.append("|---|---|---|---|---|")
    for name, suite, checks in sel:
        props, w, why = what(name)
        if why: w += " — **not noticed on purpose:** " + why
        out.append("| `%s` | %s | %s | %s | %s |" % (name.replace("seeded/", ""), props, suite, " ".join(checks), w.replace("|", "\\|")))
    out.append("")
open(os.path.join(V, "SENSITIVITY.md"), "w").write("\n".join(out) + "\n")
print("wrote SENSITIVITY.md with", len(rows), "rows")
