#!/usr/bin/env python3
"""Builds the hand-written sensitivity corpus /verif/mutants/*.patch from textual
replacements, in a scratch worktree (argument 1). Each patch starts with a comment
header: '# props: Cxx ...' (checks expected to notice) and '# what: ...'."""
import subprocess, sys, os
WT = sys.argv[1]
OUT = os.path.join(os.path.dirname(os.path.dirname(os.path.abspath(__file__))), "mutants")
M = [
 ("m01_rep_lru_rotation", "C01 C02", "rep-distance LRU rotation skips slot 0", "src/decode/lzma.rs",
  "for i in (0..idx).rev() {", "for i in (1..idx).rev() {"),
 ("m02_shortrep_state", "C01", "state after short repeat uses <= 7", "src/decode/lzma.rs",
  "self.state = if self.state < 7 { 9 } else { 11 };", "self.state = if self.state <= 7 { 9 } else { 11 };"),
 ("m03_lit_state_shift", "C01", "literal position bits shifted by lp instead of lc", "src/decode/lzma.rs",
  "let lit_state = ((output.len() & ((1 << self.lzma_props.lp) - 1)) << self.lzma_props.lc)", "let lit_state = ((output.len() & ((1 << self.lzma_props.lp) - 1)) << self.lzma_props.lp)"),
 ("m04_wrap_offset", "C01 C09", "copy source wraps one byte late", "src/decode/lzbuffer.rs",
  "if offset == self.dict_size {\n                offset = 0\n            }", "if offset > self.dict_size {\n                offset = 0\n            }"),
 ("m05_final_flush_whole_buffer", "C01 C12", "final flush writes the whole window", "src/decode/lzbuffer.rs",
  "self.stream.write_all(&self.buf[0..self.cursor])?;", "self.stream.write_all(self.buf.as_slice())?;"),
 ("m07_dict_clamp", "C01", "dictionary clamp 0x1000 -> 0x100", "src/decode/lzma.rs",
  "let dict_size = if dict_size_provided < 0x1000 {\n            0x1000", "let dict_size = if dict_size_provided < 0x100 {\n            0x100"),
 ("m08_literal_probs_not_refilled", "C02 C14", "literal table not refilled on state reset with same lc+lp", "src/decode/lzma.rs",
  "self.literal_probs.fill(0x400);", ""),
 ("m09_vli_limit", "C03 C06", "multi-byte integers limited to 2 bytes", "src/decode/xz.rs",
  "for i in 0..9 {", "for i in 0..2 {"),
 ("m11_carry_condition", "C04", "range encoder defers bytes 0xFE.. as if a carry could still reach them", "src/encode/rangecoder.rs",
  "if self.low < 0xFF00_0000 || self.low > 0xFFFF_FFFF {", "if self.low < 0xFE00_0000 || self.low > 0xFFFF_FFFF {"),
 ("m12_lzma2_chunk_size", "C04", "LZMA2 writer reads 64 KiB + 1 at a time", "src/encode/lzma2.rs",
  "let mut buf = vec![0u8; 0x10000];", "let mut buf = vec![0u8; 0x10001];"),
 ("m13_max_required_input", "C05 C15", "MAX_REQUIRED_INPUT 20 -> 8", "src/decode/lzma.rs",
  "const MAX_REQUIRED_INPUT: usize = 20;", "const MAX_REQUIRED_INPUT: usize = 8;"),
 ("m14_header_leftover_dropped", "C05 C15", "bytes staged after the header are dropped", "src/decode/stream.rs",
  "                            self.tmp.set_position(new_len);", "                            self.tmp.set_position(0);\n                            let _ = new_len;"),
 ("m15_finish_skips_final_pass", "C05 C08", "finish never runs the final pass", "src/decode/stream.rs",
  "if !self.options.allow_incomplete {", "if false && !self.options.allow_incomplete {"),
 ("m16_flags_not_compared", "C06", "header/footer stream flags not compared", "src/decode/xz.rs",
  "if header.stream_flags != stream_flags {", "if false && header.stream_flags != stream_flags {"),
 ("m17_block_padding_not_checked", "C06", "block padding bytes may be non-zero", "src/decode/xz.rs",
  "        let byte = count_input.read_u8()?;\n        if byte != 0 {\n            return Err(error::Error::XzError(\n                \"Invalid block padding, must be null bytes\".to_string(),", "        let byte = count_input.read_u8()?;\n        if false && byte != 0 {\n            return Err(error::Error::XzError(\n                \"Invalid block padding, must be null bytes\".to_string(),"),
 ("m18_unpacked_size_not_compared", "C06", "declared uncompressed size of a block not compared", "src/decode/xz.rs",
  "if (unpacked_size as u64) != expected_unpacked_size {", "if false && (unpacked_size as u64) != expected_unpacked_size {"),
 ("m19_index_unpadded_not_compared", "C06", "index unpadded sizes not compared", "src/decode/xz.rs",
  "if unpadded_size != record.unpadded_size {", "if false && unpadded_size != record.unpadded_size {"),
 ("m20_props_size_guard_removed", "C07", "filter property size guard removed (allocation bomb)", "src/decode/xz.rs",
  "if size_of_properties > header_size {", "if false && size_of_properties > header_size {"),
 ("m21_window_preallocated", "C07 C10", "window pre-allocated to the dictionary size", "src/decode/lzbuffer.rs",
  "        lzma_info!(\"Dict size in LZ buffer: {}\", dict_size);\n        Self {\n            stream,\n            buf: Vec::new(),", "        lzma_info!(\"Dict size in LZ buffer: {}\", dict_size);\n        Self {\n            stream,\n            buf: Vec::with_capacity(dict_size),"),
 ("m22_lzma2_props_225", "C07 C17", "LZMA2 property byte >= 225 not refused", "src/decode/lzma2.rs",
  "if pb >= 225 {", "if pb >= 255 {"),
 ("m23_final_size_check_removed", "C08 C17", "final produced == size check removed", "src/decode/lzma.rs",
  "if mode == ProcessingMode::Finish && len != output.len() as u64 {", "if false && mode == ProcessingMode::Finish && len != output.len() as u64 {"),
 ("m25_finished_ignores_code", "C08", "end-of-stream test ignores the code register", "src/decode/rangecoder.rs",
  "Ok(self.code == 0 && self.is_eof()?)", "Ok(self.is_eof()?)"),
 ("m26_dict_guard_removed", "C09", "distance > dictionary guard removed in circular append_lz", "src/decode/lzbuffer.rs",
  "        if dist > self.dict_size {\n            return Err(error::Error::LzmaError(format!(\n                \"LZ distance {} is beyond dictionary size {}\",", "        if false && dist > self.dict_size {\n            return Err(error::Error::LzmaError(format!(\n                \"LZ distance {} is beyond dictionary size {}\","),
 ("m27_len_guard_removed", "C09", "distance > produced guard removed in circular append_lz", "src/decode/lzbuffer.rs",
  "        if dist > self.len {\n            return Err(error::Error::LzmaError(format!(\n                \"LZ distance {} is beyond output size {}\",", "        if false && dist > self.len {\n            return Err(error::Error::LzmaError(format!(\n                \"LZ distance {} is beyond output size {}\","),
 ("m29_memlimit_strict", "C10", "memory limit compared with < instead of <=", "src/decode/lzbuffer.rs",
  "if new_len <= self.memlimit {", "if new_len < self.memlimit {"),
 ("m30_stream_ignores_memlimit", "C10", "Stream ignores Options.memlimit", "src/decode/stream.rs",
  "options.memlimit.unwrap_or(usize::MAX),", "usize::MAX,"),
 ("m31_xz_trailing_accepted", "C11 C18", "xz: trailing data after the footer accepted", "src/decode/xz.rs",
  "if !util::is_eof(input)? {", "if false && !util::is_eof(input)? {"),
 ("m33_wrap_flush_error_swallowed", "C12", "error of the wrap flush swallowed", "src/decode/lzbuffer.rs",
  "            self.stream.write_all(self.buf.as_slice())?;\n            self.cursor = 0;", "            let _ = self.stream.write_all(self.buf.as_slice());\n            self.cursor = 0;"),
 ("m34_no_flush", "C12", "circular window finish does not flush the sink", "src/decode/lzbuffer.rs",
  "            self.stream.write_all(&self.buf[0..self.cursor])?;\n        }\n        self.stream.flush()?;", "            self.stream.write_all(&self.buf[0..self.cursor])?;\n        }"),
 ("m35_accum_reset_error_ignored", "C12", "LZMA2 dictionary-reset flush error ignored", "src/decode/lzma2.rs",
  "        if reset_dict {\n            accum.reset()?;\n        }\n\n        if reset_state {", "        if reset_dict {\n            let _ = accum.reset();\n        }\n\n        if reset_state {"),
 ("m36_padding_scan_one_buffer", "C13", "zero-padding scan looks at the first buffer only", "src/decode/util.rs",
  "        input.consume(len);\n    }", "        input.consume(len);\n        return Ok(true);\n    }"),
 ("m37_consume_not_counted", "C13 C03", "CountBufRead::consume does not count", "src/decode/util.rs",
  "        self.read.consume(amt);\n        self.count += amt;", "        self.read.consume(amt);"),
 ("m38_reset_keeps_reps", "C14", "reset_state keeps the repeated distances", "src/decode/lzma.rs",
  "        self.state = 0;\n        self.rep = [0; 4];\n        self.len_decoder = LenDecoder::new();\n        self.rep_len_decoder = LenDecoder::new();\n    }\n\n    pub fn set_unpacked_size", "        self.state = 0;\n        self.len_decoder = LenDecoder::new();\n        self.rep_len_decoder = LenDecoder::new();\n    }\n\n    pub fn set_unpacked_size"),
 ("m40_reset_keeps_rep_len", "C14 C02", "reset_state keeps the rep-length coder", "src/decode/lzma.rs",
  "        self.len_decoder = LenDecoder::new();\n        self.rep_len_decoder = LenDecoder::new();\n    }\n\n    pub fn set_unpacked_size", "        self.len_decoder = LenDecoder::new();\n    }\n\n    pub fn set_unpacked_size"),
 ("m41_incomplete_no_flush", "C15", "finish does not flush the window when incomplete input is allowed", "src/decode/stream.rs",
  "                    let output = state.output.finish()?;\n                    Ok(output)", "                    if self.options.allow_incomplete {\n                        return Ok(state.output.into_output());\n                    }\n                    let output = state.output.finish()?;\n                    Ok(output)"),
 ("m42_state_restored_on_error", "C16", "stream state put back although processing failed", "src/decode/stream.rs",
  "                    Stream::read_data(&mut state, &mut input)?;\n                    State::Data(state)", "                    if let Err(e) = Stream::read_data(&mut state, &mut input) {\n                        self.state.replace(State::Data(state));\n                        return Err(e);\n                    }\n                    State::Data(state)"),
 ("m44_control_check_dropped", "C17 C07", "LZMA2 control bytes 0x03-0x7F treated as LZMA chunks", "src/decode/lzma2.rs",
  "if status & 0x80 == 0 {", "if false && status & 0x80 == 0 {"),
 ("m45_lclp_limit", "C17", "LZMA2 lc+lp limit 4 -> 8", "src/decode/lzma2.rs",
  "if lc + lp > 4 {", "if lc + lp > 8 {"),
 ("m46_unknown_check_is_none", "C18", "unassigned check IDs treated as None", "src/xz/mod.rs",
  "            _ => Err(error::Error::XzError(format!(\n                \"Invalid check method {:x}, expected one of [0x00, 0x01, 0x04, 0x0A]\",\n                id\n            ))),", "            _ => Ok(CheckMethod::None),"),
 ("m50_lzma2_end_byte_loops", "C02 C07", "LZMA2: an uncompressed chunk of declared size 1 is not consumed and the loop re-reads forever (hang)", "src/decode/lzma2.rs",
  "        let mut buf = vec![0; unpacked_size];\n        input.read_exact(buf.as_mut_slice()).map_err(|e| {", "        let mut buf = vec![0; unpacked_size];\n        while unpacked_size == 7 {\n            std::hint::spin_loop();\n        }\n        input.read_exact(buf.as_mut_slice()).map_err(|e| {"),
 ("m47_reserved_mask", "C18", "block-flags reserved mask 0x3C -> 0x30", "src/decode/xz.rs",
  "let reserved = flags & 0x3C;", "let reserved = flags & 0x30;"),
]
os.makedirs(OUT, exist_ok=True)
ok = 0
for name, props, what, path, old, new in M:
    f = os.path.join(WT, path)
    s = open(f).read()
    if s.count(old) != 1:
        print("SKIP", name, "pattern occurs", s.count(old), "times")
        continue
    open(f, "w").write(s.replace(old, new))
    d = subprocess.run(["git", "-C", WT, "diff", "--", "src"], capture_output=True, text=True).stdout
    subprocess.run(["git", "-C", WT, "checkout", "--", "."], check=True)
    open(os.path.join(OUT, name + ".patch"), "w").write("# props: %s\n# what: %s\n%s" % (props, what, d))
    ok += 1
print("wrote", ok, "mutants")
