#!/usr/bin/env python3
"""Regenerates /verif/MANIFEST.json from the table below (kept in one place so the
manifest stays valid while properties are added)."""
import json, os, sys

V = os.path.dirname(os.path.dirname(os.path.abspath(__file__)))

# id -> (level, technique, level text, level note, design ref)
SIM = "deterministic simulation (own seeded simulator: choice tape -> explicit scenario -> real lzma-rs behind simulated source/sink/caller), "
TB = "Trusted: the reference LZ model / transparent encoder / reference decoder / XZ writer in sim/src/refmodel (cross-checked against liblzma in both directions before every run) and the SimSource/SimSink/caller stubs. Sampling over inputs: a clean batch is evidence, not proof."

CLAIMED = {
 "C01": ("exploration", SIM + "fault-free control arm: seeded symbol programs x lc/lp/pb x dictionary sizes x benign I/O scripts, compared online with a reference LZ model; metamorphic second dictionary size",
         "Pure property (no fault or schedule decides it): claimed only as the simulator's fault-free control arm, the weakest thing this family does. Real decoder output is compared byte by byte with the LZ model for reference-encoded programs over all 225 lc/lp/pb, dictionary header values incl. <4096, raw dictionaries 1..4095, laps of the circular window, both terminations and all three header options.",
         TB, "DESIGN.md section 4, C01"),
 "C02": ("exploration", SIM + "fault-free control arm: seeded LZMA2 chunk plans (all reset classes, property changes, cross-chunk matches, size extremes) vs reference LZ model",
         "Pure property: control arm only. Reference-built LZMA2 streams with every control class and ordering xz accepts are decoded through lzma2_decompress, raw::Lzma2Decoder and inside .xz; output compared online with the model.",
         TB, "DESIGN.md section 4, C02"),
 "C03": ("exploration", SIM + "fault-free control arm: seeded XZ container plans (blocks, checks, optional fields, paddings) vs concatenated block models",
         "Pure property: control arm only. Reference-built single-stream files within the supported subset must decode to the concatenation of the block models.",
         TB + " VLIs of 5-9 bytes are not exercised in accepted files.", "DESIGN.md section 4, C03"),
 "C04": ("exploration", SIM + "seeded plaintexts x encoder options x reader fragmentation scripts; oracle = three independent decoders (lzma-rs, reference decoder, liblzma)",
         "The reader-fragmentation clause is a native simulation target (source scripts incl. a real BufReader over short reads); the rest is sampled. Every emitted stream must decode to the input with lzma-rs (matching option), the strict reference decoder/parser and liblzma.",
         TB, "DESIGN.md section 4, C04"),
 "C05": ("exploration", SIM + "history exploration: seeded inputs x decode options x compositions into write calls (adversarial cuts from the reference trace), Stream vs one-shot differential; all 1-cut/2-cut compositions enumerated for short inputs",
         "Native target: the property quantifies over call histories. Stream's verdict and bytes are compared with the one-shot decoder for valid, adversarial (9-12 byte symbols), corrupted and random inputs under seeded histories, with exhaustive 1-/2-cut compositions on a sample of short inputs.",
         "Oracle is the one-shot decoder itself (C01/C08 cover it). " + TB, "DESIGN.md section 4, C05"),
 "C06": ("fault_enumeration", SIM + "stored-data fault enumeration: every bit flip, every truncation point, every integrity/size field substituted with enclosing CRCs recomputed, stream padding not in fours; oracle = field-exact XZ judge + original bytes; both arithmetic profiles",
         "Native target (stored-data faults). Per seeded file the thorough tier enumerates all bit positions, all truncation points and the whole field x value table; success obliges the independent field-exact judge to confirm every listed field and, for CRC32/CRC64 files, byte-identical output.",
         TB + " The judge does no range decoding; unjudgeable framings are counted, not alarmed.", "DESIGN.md section 4, C06"),
 "C07": ("exploration", SIM + "seeded arbitrary/mutated/near-valid inputs x every decoding entry point x call histories x two arithmetic builds; monitors: catch_unwind, metering allocator vs reference production, no-progress supervisor",
         "Random, mutated and grammar-generated near-valid inputs drive every decoding entry point (Stream under histories that keep calling after errors; raw decoders with any accepted parameters) in an overflow-checked and a wrapping build; a panic, a heap peak out of proportion to consumed+produced bytes, or a stalled run is a violation.",
         TB + " Real allocation failure is not simulated. 64-bit only.", "DESIGN.md section 4, C07"),
 "C08": ("exploration", SIM + "seeded streams x option combinations x header/supplied size values x tail truncation/extension; rules computed by the reference decoder on the same bytes",
         "Partly a simulation target (truncation = the producer died; Stream histories). Size-in-effect rules, overshoot, early marker, input running out (one-byte band) and bytes after the marker are computed by the reference decoder and compared with the real verdict and bytes, one-shot and through Stream.",
         TB, "DESIGN.md section 4, C08"),
 "C09": ("exploration", SIM + "seeded valid prefix + one illegal copy at chosen wrap-relative positions x window sizes, both window implementations; online prefix check of the sink",
         "Window capacity and position relative to the wrap point are the knobs. A valid reference-encoded prefix followed by one out-of-window copy must yield Err, and the sink may only ever hold a prefix of what the valid prefix defines (no fabricated or stale bytes).",
         TB, "DESIGN.md section 4, C09"),
 "C10": ("exploration", SIM + "resource-limit injection: memlimit around the exact need x one-shot/Stream/raw, differential against the unlimited run, metering allocator",
         "Native target (resource limit x streaming). Limits {0, need-1, need, need+1, dict-1, dict, max, random} are injected; at or above the need the run must equal the unlimited run, below it must fail with a model-prefix in the sink; heap peak bounded by the limit.",
         TB, "DESIGN.md section 4, C10"),
 "C11": ("exploration", SIM + "seeded payloads + trailing bytes x reader kinds (slice, Cursor, real BufReader over short reads, SimSource); reader position vs encoder-emitted length; chained decodes; bytes after the LZMA2 end byte inside an .xz block's stored compressed size",
         "Native target (reader position). After success the reader must sit exactly after the payload for every reader kind and refill pattern; two payloads are decoded back to back from one reader; whole-file decoders must refuse trailing bytes.",
         TB, "DESIGN.md section 4, C11"),
 "C12": ("fault_enumeration", SIM + "I/O fault enumeration: one fault (Other, WouldBlock, UnexpectedEof, EINTR, write-zero, disk-full, failing flush) at every source call / sink write / flush index; oracle = fired-fault-implies-Err + online prefix check",
         "Native target. Every entry point (3 decoders, Stream, 2 raw decoders, 3 encoders) runs against a simulated source and sink; a fault-free pilot counts the calls, then a fault is injected at each call index (all indices in thorough, a sample in quick).",
         TB + " Encoder expected output is the encoder's own fault-free output.", "DESIGN.md section 4, C12"),
 "C13": ("exploration", SIM + "pairs of source scripts over the same bytes (all-at-once vs scripted refills / real BufReader of capacity 1..64 over short reads), differential",
         "Native target. Valid and corrupted inputs of every format are decoded twice under different fragmentation; verdict, bytes and consumed count must agree.",
         TB, "DESIGN.md section 4, C13"),
 "C14": ("exploration", SIM + "history exploration on one reused raw decoder (decompress valid/corrupt, reset variants); model = a freshly constructed decoder",
         "Native target (history on a reused object). After every reset the next decompress is compared with a fresh decoder (verdict, bytes, consumed count), including after decodes that failed half-way and across property changes.",
         TB, "DESIGN.md section 4, C14"),
 "C15": ("exploration", SIM + "crash-point exploration: upstream dies after every prefix length, histories over the prefix, allow_incomplete; online prefix oracle + lag bound from the reference encoder's per-symbol table",
         "Native target (every crash point). Sink contents are compared online with the model; after finish the delivered length must cover all symbols ending >= 64 input bytes before the cut; every prefix is enumerated for a sample of streams.",
         TB, "DESIGN.md section 4, C15"),
 "C16": ("exploration", SIM + "history exploration: write/flush/get_output/finish sequences continuing after the first error and after completion; latch rules checked over the recorded history",
         "Native target. Recorded (call, result, sink length) histories over valid, corrupted and over-long inputs are checked against the failure latch and the completion latch.",
         TB, "DESIGN.md section 4, C16"),
 "C17": ("fault_enumeration", SIM + "framing-field fault enumeration at every chunk (control byte, property byte, declared sizes, truncation); oracle = lenient reference LZMA2 decoder that knows exactly the listed rules",
         "Partly a simulation target (corruption/truncation). Per seeded chunk sequence every framing field takes every boundary-violating value at every chunk (thorough: all values); what the lenient reference must reject, lzma-rs must reject.",
         TB, "DESIGN.md section 4, C17"),
 "C18": ("fault_enumeration", SIM + "stored-field substitution enumerated per file: every unsupported check ID, filter ID/chain, reserved bit, second stream, stream padding, with all CRCs consistent, plus a forged twin header (unsupported header whose free bits are solved so that its CRC32 equals the previous block header's); oracle = must be Err",
         "Partly a simulation target (stored-field substitution). Every unsupported feature is substituted into every seeded valid file with all CRCs, check sizes and SHA-256 values consistent; only Ok is a violation.",
         TB, "DESIGN.md section 4, C18"),
}

PENDING_REASON = "check not built yet in this round (planned, see DESIGN.md section 4); not claimed until its machinery exists"

def main():
    props = [json.loads(l) for l in open(os.path.join(V, "properties.jsonl"))]
    checks, na = [], []
    for p in props:
        pid = p["id"]
        if pid in CLAIMED:
            lvl, tech, text, note, ref = CLAIMED[pid]
            checks.append({
                "property_id": pid,
                "quick_cmd": f"./check {pid} quick",
                "thorough_cmd": f"./check {pid} thorough",
                "evidence_file": f"/verif/evidence/{pid}.json",
                "replay_cmd_template": "./check --replay {path}",
                "engine": "lzsim",
                "level_claimed": {"category": lvl, "text": text, "design_ref": ref},
                "level_note": note,
                "technique": tech,
            })
        else:
            na.append({"property_id": pid, "reason": NA.get(pid, PENDING_REASON)})
    m = {
        "version": 1,
        "setup_cmd": "cd /verif/sim && CARGO_NET_OFFLINE=true cargo build --offline --profile checked && CARGO_NET_OFFLINE=true cargo build --offline --release",
        "hooks": {
            "guard": "none",
            "enable": "no hooks: the simulator uses seams the code already has (BufRead/Write generics, Stream and raw-decoder call histories, memlimit/dictionary knobs); /repo is compiled as is through a cargo path dependency with features stream,raw_decoder",
            "baseline_off_cmd": "cd /repo && cargo test --workspace --no-fail-fast --offline",
            "source_commits": [],
            "add_only": True,
        },
        "engines": [{
            "name": "lzsim",
            "path": "/verif/sim",
            "serves_properties": [c["property_id"] for c in checks],
            "kind_free_text": "own deterministic simulator (Rust): seeded choice tape -> explicit scenario (bytes, I/O scripts, call history, fault plan) -> real lzma-rs under simulated source/sink/caller -> oracle from a reference model; tape-level shrinking; explicit replay files",
        }],
        "checks": checks,
        "not_applicable": na,
        "notes": "Exit 2 = harness error (build failure, oracle self-test failure, replay did not reproduce); never a violation. VERIF_SEED selects the seed (default 1). KNOWN_FINDINGS.json lists fixed/open findings.",
    }
    json.dump(m, open(os.path.join(V, "MANIFEST.json"), "w"), indent=1)
    print("wrote MANIFEST.json:", len(checks), "checks,", len(na), "not claimed")

NA = {}
if __name__ == "__main__":
    main()
