#!/usr/bin/env python3
"""Regenerates /verif/MANIFEST.json from the table below (kept in one place so the
manifest stays valid while properties are added)."""
import json, os, sys

V = os.path.dirname(os.path.dirname(os.path.abspath(__file__)))

# id -> (level, technique, level text, level note, design ref)
CLAIMED = {
 "C12": ("fault_enumeration",
         "deterministic simulation: seeded inputs x scripted source/sink, one I/O fault injected at every call index (fault enumeration), oracle = reference model prefix check + fired-fault-implies-Err",
         "Every entry point (3 decoders, Stream, 2 raw decoders, 3 encoders) runs real code against a simulated source and sink; a fault-free pilot counts the calls, then a fault of a rotating kind (Other, WouldBlock, UnexpectedEof, EINTR, write-zero, disk-full, failing flush) is injected at each call index (all indices in the thorough tier, a sample in quick). Sampling over inputs, enumeration over fault positions per input: evidence, not proof.",
         "Trusted: the reference LZ model/encoder (cross-checked against liblzma on every run), the SimSource/SimSink stubs. Encoder expected output is the encoder's own fault-free output.",
         "DESIGN.md section 4, C12"),
}

PENDING_REASON = "check not built yet in this round (planned, see DESIGN.md section 4); not claimed until its machinery exists"

def main():
    props = [json.loads(l) for l in open(os.path.join(V, "properties.jsonl"))]
    checks, na = [], []
    for p in props:
        pid = p["id"]
        if pid in CLAIMED:
            lvl, tech, text, note, ref = CLAIMED[pid]
            checks.append({
                "property_id": pid,
                "quick_cmd": f"./check {pid} quick",
                "thorough_cmd": f"./check {pid} thorough",
                "evidence_file": f"/verif/evidence/{pid}.json",
                "replay_cmd_template": "./check --replay {path}",
                "engine": "lzsim",
                "level_claimed": {"category": lvl, "text": text, "design_ref": ref},
                "level_note": note,
                "technique": tech,
            })
        else:
            na.append({"property_id": pid, "reason": NA.get(pid, PENDING_REASON)})
    m = {
        "version": 1,
        "setup_cmd": "cd /verif/sim && CARGO_NET_OFFLINE=true cargo build --offline --profile checked && CARGO_NET_OFFLINE=true cargo build --offline --release",
        "hooks": {
            "guard": "none",
            "enable": "no hooks: the simulator uses seams the code already has (BufRead/Write generics, Stream and raw-decoder call histories, memlimit/dictionary knobs); /repo is compiled as is through a cargo path dependency with features stream,raw_decoder",
            "baseline_off_cmd": "cd /repo && cargo test --workspace --no-fail-fast --offline",
            "source_commits": [],
            "add_only": True,
        },
        "engines": [{
            "name": "lzsim",
            "path": "/verif/sim",
            "serves_properties": [c["property_id"] for c in checks],
            "kind_free_text": "own deterministic simulator (Rust): seeded choice tape -> explicit scenario (bytes, I/O scripts, call history, fault plan) -> real lzma-rs under simulated source/sink/caller -> oracle from a reference model; tape-level shrinking; explicit replay files",
        }],
        "checks": checks,
        "not_applicable": na,
        "notes": "Exit 2 = harness error (build failure, oracle self-test failure, replay did not reproduce); never a violation. VERIF_SEED selects the seed (default 1). KNOWN_FINDINGS.json lists fixed/open findings.",
    }
    json.dump(m, open(os.path.join(V, "MANIFEST.json"), "w"), indent=1)
    print("wrote MANIFEST.json:", len(checks), "checks,", len(na), "not claimed")

NA = {}
if __name__ == "__main__":
    main()
