#!/bin/bash
# tools/sensitivity.sh [patch files...]   (default: mutants/*.patch seeded/*/patch.diff)
# Sensitivity runs happen entirely in scratch copies: a git worktree of /repo's HEAD
# and a copy of /verif/sim whose path dependency points at that worktree. Each
# change is applied there, lzsim is rebuilt, and the quick check of every property
# named in the patch header ("# props: ...") or in seeded/<id>/meta.json
# ("check_with") is run. /repo and /verif/evidence are never touched.
# Env: SENS_ALL=1 run all 18 checks per change; SENS_SUITE=1 also run the pinned
# test suite with the change; SENS_OUT=<file> also write the table there.
set -u
V=/verif
S=$(mktemp -d /tmp/sens.XXXXXX)
cleanup() { git -C /repo worktree remove --force "$S/repo" >/dev/null 2>&1; rm -rf "$S"; }
trap cleanup EXIT
ARGS=(); for a in "$@"; do ARGS+=("$(readlink -f "$a")"); done
if [ ${#ARGS[@]} -eq 0 ]; then ARGS=($V/mutants/*.patch $V/seeded/*/patch.diff); fi
git -C /repo worktree add -q --detach "$S/repo" HEAD || exit 2
mkdir -p "$S/out" && cp $V/KNOWN_FINDINGS.json "$S/out/"
rsync -a --exclude target $V/sim/ "$S/sim/"
sed -i "s#path = \"/repo\"#path = \"$S/repo\"#" "$S/sim/Cargo.toml"
cd "$S/sim"
export CARGO_NET_OFFLINE=true
emit() { echo "$1"; [ -n "${SENS_OUT:-}" ] && echo "$1" >> "$SENS_OUT"; }
[ -n "${SENS_OUT:-}" ] && : > "$SENS_OUT"
emit "$(printf '%-46s %-8s %s' 'change' 'suite' 'checks (id:exit(violation class))')"
for p in "${ARGS[@]}"; do
  [ -f "$p" ] || continue
  name=$(basename "$p" .patch); [ "$name" = "patch.diff" ] && name="seeded/$(basename $(dirname "$p"))"
  if [ -f "$(dirname "$p")/meta.json" ]; then
    props=$(python3 -c "import json,sys; m=json.load(open(sys.argv[1])); print(' '.join(m.get('check_with', [m['property']])))" "$(dirname "$p")/meta.json")
  else
    props=$(grep -m1 '^# props:' "$p" | sed 's/# props://')
  fi
  [ "${SENS_ALL:-0}" = "1" ] && props="C01 C02 C03 C04 C05 C06 C07 C08 C09 C10 C11 C12 C13 C14 C15 C16 C17 C18"
  git -C "$S/repo" checkout -q -- .
  if ! grep -v '^#' "$p" | git -C "$S/repo" apply - 2>/dev/null; then emit "$(printf '%-46s %s' "$name" 'PATCH-DOES-NOT-APPLY')"; continue; fi
  # the wrapping-arithmetic build is only used by the checks that quantify over both profiles
  need_rel=0; case " $props " in *" C06 "*|*" C07 "*) need_rel=1;; esac
  if ! cargo build --offline --profile checked >/dev/null 2>&1 || { [ $need_rel = 1 ] && ! cargo build --offline --release >/dev/null 2>&1; }; then
    emit "$(printf '%-46s %s' "$name" 'DOES-NOT-COMPILE')"; continue
  fi
  suite="-"
  if [ "${SENS_SUITE:-0}" = "1" ]; then
    if (cd "$S/repo" && timeout 600 cargo test --workspace --no-fail-fast --offline >/dev/null 2>&1); then suite="passes"; else suite="FAILS"; fi
  fi
  res=""
  for id in $props; do
    ./target/checked/lzsim check --property $id --tier quick --verif-dir "$S/out" >"$S/out/log" 2>&1
    e=$?
    cls=$(grep -m1 '^violation:' "$S/out/log" | sed 's/violation: class=\([a-z_]*\).*/\1/')
    res="$res $id:$e${cls:+($cls)}"
  done
  emit "$(printf '%-46s %-8s%s' "$name" "$suite" "$res")"
done
