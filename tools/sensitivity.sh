#!/bin/bash
# tools/sensitivity.sh [patch files...]   (default: mutants/*.patch seeded/*/patch.diff)
# Applies each change to /repo, rebuilds lzsim, runs the quick check of every
# property named in the patch header ("# props: ..." or seeded/<id>/meta.json),
# records which checks notice it, and ALWAYS restores /repo afterwards.
# Evidence and replay files of these runs go to a scratch directory, not /verif.
set -u
V=/verif
OUT=$(mktemp -d /tmp/sens.XXXXXX)
mkdir -p "$OUT"
cp $V/KNOWN_FINDINGS.json "$OUT/"
restore() { git -C /repo checkout -q -- . ; }
trap 'restore; rm -rf "$OUT"' EXIT
ARGS=()
for a in "$@"; do ARGS+=("$(readlink -f "$a")"); done
cd $V/sim
export CARGO_NET_OFFLINE=true
if [ ${#ARGS[@]} -eq 0 ]; then ARGS=($V/mutants/*.patch $V/seeded/*/patch.diff); fi
set -- "${ARGS[@]}"
ALL="${SENS_ALL:-0}"
printf "%-44s %-8s %s\n" "change" "suite" "checks (id:exit)"
for p in "$@"; do
  [ -f "$p" ] || continue
  name=$(basename "$p" .patch); [ "$name" = "patch.diff" ] && name="seeded/$(basename $(dirname "$p"))"
  if [ -f "$(dirname "$p")/meta.json" ]; then
    props=$(python3 -c "import json,sys; m=json.load(open(sys.argv[1])); print(' '.join(m.get('check_with', [m['property']])))" "$(dirname "$p")/meta.json")
  else
    props=$(grep -m1 '^# props:' "$p" | sed 's/# props://')
  fi
  [ "$ALL" = "1" ] && props="C01 C02 C03 C04 C05 C06 C07 C08 C09 C10 C11 C12 C13 C14 C15 C16 C17 C18"
  restore
  if ! grep -v '^#' "$p" | git -C /repo apply - 2>/dev/null; then printf "%-44s %s\n" "$name" "PATCH-DOES-NOT-APPLY"; continue; fi
  if ! cargo build --offline --profile checked >/dev/null 2>&1 || ! cargo build --offline --release >/dev/null 2>&1; then
    printf "%-44s %s\n" "$name" "DOES-NOT-COMPILE"; restore; continue
  fi
  suite="-"
  if [ "${SENS_SUITE:-0}" = "1" ]; then
    if (cd /repo && cargo test --workspace --no-fail-fast --offline >/dev/null 2>&1); then suite="passes"; else suite="FAILS"; fi
  fi
  res=""
  for id in $props; do
    ./target/checked/lzsim check --property $id --tier quick --verif-dir "$OUT" >"$OUT/log" 2>&1
    e=$?
    cls=$(grep -m1 '^violation:' "$OUT/log" | sed 's/violation: class=\([a-z_]*\).*/\1/')
    res="$res $id:$e${cls:+($cls)}"
  done
  printf "%-44s %-8s%s\n" "$name" "$suite" "$res"
  restore
done
restore
cargo build --offline --profile checked >/dev/null 2>&1; cargo build --offline --release >/dev/null 2>&1
